package c18

import (
	"encoding/json"
	"fmt"
	"math/big"
	"math/rand"
	"sort"
	"strings"
	"time"

	sdkmath "cosmossdk.io/math"
	"cosmossdk.io/x/feegrant"
	codectypes "github.com/cosmos/cosmos-sdk/codec/types"
	sdk "github.com/cosmos/cosmos-sdk/types"
	authtypes "github.com/cosmos/cosmos-sdk/x/auth/types"
	vestingtypes "github.com/cosmos/cosmos-sdk/x/auth/vesting/types"
	banktypes "github.com/cosmos/cosmos-sdk/x/bank/types"
	govv1 "github.com/cosmos/cosmos-sdk/x/gov/types/v1"
	govv1beta1 "github.com/cosmos/cosmos-sdk/x/gov/types/v1beta1"
	"github.com/cosmos/gogoproto/proto"

	palomatypes "github.com/palomachain/paloma/v2/x/paloma/types"
	skywaytypes "github.com/palomachain/paloma/v2/x/skyway/types"

	"verif/harness/chain"
	"verif/harness/fw"
	"verif/harness/world"
)

const (
	mustFail      = "must-fail"
	either        = "either"
	shouldSucceed = "should-succeed"
)

var million = big.NewInt(1_000_000)

type mon struct {
	rec *fw.Recorder
	r   *rand.Rand
	w   *world.BridgeWorld
	c   *chain.Chain
	p   params
	L   *ledger

	bank      *chain.Account
	creators  []*chain.Account
	funderC   []*chain.Account
	fgC       []*chain.Account
	pool      []*chain.Account
	byAddr    map[string]*chain.Account
	tracked   []string
	isTracked map[string]bool
	denoms    []string
	contracts []string
	power     map[string]int64
	totalPow  int64

	escrowAddr   string
	panicExcused bool
	stuckSampled bool
	phantomNonce map[string]uint64 // claims sent under chain references the bridge does not serve
	sweepShapes  []string
	sweepsDone   int

	last  *obs
	ethH  uint64
	step  int
	dead  bool
	hist  []any
	fresh int
}

func run(cs fw.Case, tier string, rec *fw.Recorder) {
	var p params
	cs.Decode(&p)
	r := cs.Rand()
	chains := []string{"eth-main", "bnb-main"}[:p.NChains]
	w, err := world.NewBridgeWorld(world.BridgeOpts{Prefix: fmt.Sprintf("c18-%d", cs.Seed), Stakes: p.Stakes, NUsers: 6, Chains: chains,
		FactorySubs: []string{"lic"}, UserFunds: 20_000_000_000, TokenFunds: 1_000_000_000, Voting: 6 * time.Second})
	if w != nil && w.C != nil {
		defer w.C.Close()
	}
	if err != nil {
		rec.Inconclusive("bring-up failed: " + err.Error())
		return
	}
	m := &mon{rec: rec, r: r, w: w, c: w.C, p: p, L: newLedger(), byAddr: map[string]*chain.Account{}, isTracked: map[string]bool{}, power: map[string]int64{}, ethH: 5000}
	m.escrowAddr = chain.ModuleAddr("paloma").String()
	m.bank = w.Users[0]
	m.creators = w.Users[0:3]
	m.funderC = w.Users[3:6]
	m.fgC = w.Users[1:3]
	m.denoms = []string{chain.Denom, world.FactoryDenom(w.Users[0], "lic")}
	m.contracts = []string{"0x5A1e000000000000000000000000000000000001", "0x5A1e000000000000000000000000000000000002"}
	for i := 0; i < 10; i++ {
		a := chain.NewAccount(fmt.Sprintf("ln%d", i), fmt.Sprintf("c18-%d/ln/%d", cs.Seed, i))
		m.pool = append(m.pool, a)
	}
	for _, a := range w.Users {
		m.byAddr[a.Bech] = a
		m.track(a.Bech)
	}
	for i, a := range w.Vals {
		m.byAddr[a.Bech] = a
		m.track(a.Bech)
		m.power[a.Bech] = p.Stakes[i] / 1_000_000
		m.totalPow += p.Stakes[i] / 1_000_000
	}
	for _, a := range m.pool {
		m.byAddr[a.Bech] = a
		m.track(a.Bech)
	}
	m.track(chain.ModuleAddr("paloma").String())
	m.track(chain.GovAuthority())
	m.last = m.observe()
	m.phantomNonce = map[string]uint64{}
	// one authorisation sweep per history (authz.go), half-way; two out of three on a chain without a contract
	m.sweepShapes = []string{[]string{"none-registered", "only-other-chains", "registered"}[r.Intn(3)]}

	if p.GovReal {
		m.opConfigReal()
	}
	if p.Reimport && !m.dead {
		m.reimportThenSales()
	}
	for m.step = 0; m.step < p.Steps && !m.dead; m.step++ {
		if m.c.Height%500 == 499 {
			w.KeepAlive()
			m.blockOnly("keep-alive", 2*time.Second)
			continue
		}
		if m.step == p.Steps/6 && m.L.cfg.bits() != "GFC" {
			m.completeConfig() // most of a history runs with a usable sale path; churn takes it apart again
			continue
		}
		if m.step >= p.Steps/2 && m.sweepsDone < len(m.sweepShapes) {
			m.opAuthzSweep(m.sweepShapes[m.sweepsDone])
			m.sweepsDone++
			continue
		}
		m.randomOp()
	}
	if !m.dead {
		// every history ends with a look at all vesting schedules, far in the future included
		m.opTimeTravel(time.Duration(1+r.Intn(400)) * 24 * time.Hour)
		for _, k := range m.L.actKeys() {
			m.probe(m.L.act[k])
		}
	}
	if !m.dead && p.Hostile {
		m.opHostileSale()
	}
	// a written-out excerpt for the evidence file: the first operations that had an effect
	var excerpt []any
	for _, h := range m.hist {
		if o, isMap := h.(map[string]any); isMap && (o["result"] == "accepted" || o["op"] == "sale-claims") && len(excerpt) < 8 {
			excerpt = append(excerpt, o)
		}
	}
	rec.Sample(map[string]any{"params": p, "licensee_pool": len(m.pool), "denoms": m.denoms, "operations": len(m.hist), "open_licences_at_end": len(m.L.lic),
		"activated_at_end": len(m.L.act), "excerpt": excerpt})
	rec.Count("histories", 1)
	rec.Count("blocks", m.c.Height)
}

func (m *mon) track(addr string) {
	if m.isTracked[addr] {
		return
	}
	m.isTracked[addr] = true
	m.tracked = append(m.tracked, addr)
	if m.last != nil {
		a := sdk.MustAccAddressFromBech32(addr)
		ctx := m.c.Ctx()
		if addr != m.escrowAddr {
			m.last.Bal[addr] = m.c.App.BankKeeper.GetAllBalances(ctx, a)
		}
		m.last.Acct[addr] = m.acctView(ctx, a)
	}
}

func (m *mon) weights() map[string]int {
	w := map[string]int{"add": 20, "sale": 20, "activate": 20, "auth": 4, "legacy": 2, "config": 9, "fund": 6, "gift": 4, "spend": 5, "travel": 6, "probe": 4, "reimport": 2}
	switch m.p.Profile {
	case "sale":
		w["sale"], w["add"], w["fund"] = 34, 8, 10
	case "direct":
		w["add"], w["sale"], w["spend"] = 34, 8, 8
	case "churn":
		w["config"], w["sale"], w["fund"] = 22, 26, 10
	}
	return w
}

func (m *mon) randomOp() {
	w := m.weights()
	names := []string{"add", "sale", "activate", "auth", "legacy", "config", "fund", "gift", "spend", "travel", "probe", "reimport"}
	tot := 0
	for _, n := range names {
		tot += w[n]
	}
	x := m.r.Intn(tot)
	for _, n := range names {
		if x < w[n] {
			switch n {
			case "add":
				m.opAddLicence()
			case "sale":
				m.opSale()
			case "activate":
				m.opActivate()
			case "auth":
				m.opAuth()
			case "legacy":
				m.opLegacy()
			case "config":
				m.opConfig()
			case "fund":
				m.opFundMove()
			case "gift":
				m.opGift()
			case "spend":
				m.opSpend()
			case "travel":
				dts := []time.Duration{time.Hour, 24 * time.Hour, 30 * 24 * time.Hour, 182 * 24 * time.Hour, 365 * 24 * time.Hour, 3 * 365 * 24 * time.Hour, 37*time.Hour + 11*time.Second}
				m.opTimeTravel(dts[m.r.Intn(len(dts))])
			case "reimport":
				m.opReimport("walk")
			case "probe":
				if ks := m.L.actKeys(); len(ks) > 0 {
					m.probe(m.L.act[ks[m.r.Intn(len(ks))]])
				}
			}
			return
		}
		x -= w[n]
	}
}

// ---------------------------------------------------------------------------------------------
// observation

func (m *mon) acctView(ctx sdk.Context, a sdk.AccAddress) acctView {
	acc := m.c.App.AccountKeeper.GetAccount(ctx, a)
	if acc == nil {
		return acctView{}
	}
	switch v := acc.(type) {
	case *authtypes.BaseAccount:
		return acctView{Exists: true, Type: "base"}
	case *vestingtypes.ContinuousVestingAccount:
		return acctView{Exists: true, Type: "cva", OV: v.OriginalVesting.String(), Start: v.StartTime, End: v.EndTime,
			Deleg: v.DelegatedFree.String() + "/" + v.DelegatedVesting.String()}
	case *authtypes.ModuleAccount:
		return acctView{Exists: true, Type: "module"}
	default:
		return acctView{Exists: true, Type: fmt.Sprintf("other:%T", acc)}
	}
}

func cvaView(amount sdk.Coin, start, end int64) acctView {
	return acctView{Exists: true, Type: "cva", OV: sdk.NewCoins(amount).String(), Start: start, End: end, Deleg: "/"}
}

func (m *mon) observe() *obs {
	c := m.c
	ctx := c.Ctx()
	o := &obs{Height: c.Height, Time: c.Time.Unix(), Lic: map[string]licView{}, Bal: map[string]sdk.Coins{}, Acct: map[string]acctView{}, Grants: map[string]bool{}}
	o.Escrow = c.App.BankKeeper.GetAllBalances(ctx, chain.ModuleAddr("paloma"))
	lics, err := c.App.PalomaKeeper.AllLightNodeClientLicenses(ctx)
	if err != nil {
		m.rec.Inconclusive("cannot list licences: " + err.Error())
	}
	for _, l := range lics {
		o.Lic[l.ClientAddress] = licView{Addr: l.ClientAddress, Amount: l.Amount.String(), Months: l.VestingMonths}
	}
	for _, a := range m.tracked {
		addr := sdk.MustAccAddressFromBech32(a)
		if a != m.escrowAddr {
			o.Bal[a] = c.App.BankKeeper.GetAllBalances(ctx, addr) // the escrow account is compared as Escrow
		}
		o.Acct[a] = m.acctView(ctx, addr)
	}
	_ = c.App.FeeGrantKeeper.IterateAllFeeAllowances(ctx, func(g feegrant.Grant) bool {
		o.Grants[g.Granter+">"+g.Grantee] = true
		return false
	})
	c.App.AccountKeeper.IterateAccounts(ctx, func(a sdk.AccountI) bool {
		if _, isMod := a.(*authtypes.ModuleAccount); !isMod { // module accounts come into being on first use
			o.NAcc++
		}
		return false
	})
	return o
}

type witness struct {
	Op    any        `json:"op"`
	Diffs []diffItem `json:"diffs,omitempty"`
	Note  string     `json:"note,omitempty"`
	Tail  []any      `json:"history_tail"`
}

func (m *mon) vio(sig, msg string, op any, d []diffItem, note string) {
	tail := m.hist
	if len(tail) > 30 {
		tail = tail[len(tail)-30:]
	}
	m.rec.Violation(sig, msg, witness{Op: op, Diffs: d, Note: note, Tail: tail})
	m.dead = true // the ledger no longer describes the chain; later reports would be echoes
}

func (m *mon) logOp(op map[string]any) map[string]any {
	op["step"] = m.step
	op["h"] = m.c.Height + 1
	op["cfg"] = m.L.cfg.bits()
	m.rec.Op(op)
	m.hist = append(m.hist, op)
	return op
}

// settle compares the predicted with the observed state, checks the invariants and makes the
// observed state the starting point of the next operation.
func (m *mon) settle(opKind, outcome string, want *obs, op any) *obs {
	post := m.observe()
	if mv := post.Acct[m.escrowAddr]; mv.Type == "module" {
		want.Acct[m.escrowAddr] = mv // the module account record itself appears with the first escrowed coin
	}
	d := diffObs(want, post)
	m.rec.Eval(int64(len(want.Bal) + len(want.Acct) + len(post.Lic) + len(want.Grants) + 3))
	m.rec.Count("state_predictions_checked", 1)
	if len(d) > 0 {
		m.vio(fmt.Sprintf("%s/%s:%s", opKind, outcome, fields(d)),
			fmt.Sprintf("%s (%s): observed state differs from the ledger's prediction in %s (first: %s want %s got %s)", opKind, outcome, fields(d), d[0].Key, d[0].Want, d[0].Got), op, d, "")
	}
	m.last = post
	if !m.dead {
		m.invariants(post, op)
	}
	return post
}

// invariants: the standing part of the property, checked after every operation and block.
func (m *mon) invariants(o *obs, op any) {
	// (1) escrow covers, and (no gifts in this workload) equals, the open licences - against the
	// ledger and against the licence records the chain itself lists
	due := m.L.escrowDue()
	listed := map[string]*big.Int{}
	for _, l := range o.Lic {
		cn, err := sdk.ParseCoinNormalized(l.Amount)
		if err != nil {
			continue
		}
		if listed[cn.Denom] == nil {
			listed[cn.Denom] = new(big.Int)
		}
		listed[cn.Denom].Add(listed[cn.Denom], cn.Amount.BigInt())
	}
	denoms := map[string]bool{}
	for d := range due {
		denoms[d] = true
	}
	for d := range listed {
		denoms[d] = true
	}
	for _, cn := range o.Escrow {
		denoms[cn.Denom] = true
	}
	for _, d := range sortedKeys(denoms) {
		have := o.Escrow.AmountOf(d).BigInt()
		for what, tab := range map[string]map[string]*big.Int{"ledger": due, "listed": listed} {
			want := tab[d]
			if want == nil {
				want = new(big.Int)
			}
			m.rec.Eval(1)
			m.rec.Count("escrow_checks", 1)
			switch have.Cmp(want) {
			case -1:
				m.vio("escrow/below-open-licences("+what+")", fmt.Sprintf("escrow of %s is %s but open licences (%s) sum to %s", d, have, what, want), op, nil, "")
			case 1:
				m.vio("escrow/above-open-licences("+what+")", fmt.Sprintf("escrow of %s is %s but open licences (%s) sum to %s and nobody made a gift", d, have, what, want), op, nil, "")
			}
		}
	}
	if len(m.L.lic) > 0 {
		m.rec.Count("escrow_checks_with_open_licences", 1)
	}
	// (2) an activated account keeps the schedule it got at activation (no second activation, no reset)
	for _, k := range m.L.actKeys() {
		a := m.L.act[k]
		m.rec.Eval(1)
		if got, want := o.Acct[k].String(), cvaView(a.Amount, a.Start, a.End).String(); got != want {
			m.vio("activated-account/schedule-changed", fmt.Sprintf("account %s was activated as %s and is now %s", k, want, got), op, nil, "")
		}
	}
}

func (m *mon) distinct(op, class, outcome, extra string) {
	if len(m.L.lic)+len(m.L.act) == 0 && m.L.cfg.bits() == "---" {
		return
	}
	cap4 := func(n int) int {
		if n > 4 {
			return 4
		}
		return n
	}
	m.rec.Distinct(fmt.Sprintf("%s|%s|%s|%s|%d|%d|%s", op, class, outcome, m.L.cfg.bits(), cap4(len(m.L.lic)), cap4(len(m.L.act)), extra))
}

func (m *mon) unexpectedReject(op any, log string) {
	m.rec.Count("unexpected_rejects", 1)
	b, _ := json.Marshal(op)
	m.rec.Inconclusive(fmt.Sprintf("a well-formed operation the ledger expects to succeed was rejected: %s: %s", b, trunc(log)))
}

func ok(b bool) string {
	if b {
		return "accepted"
	}
	return "rejected"
}

// ---------------------------------------------------------------------------------------------
// blocks without operations

func (m *mon) blockOnly(what string, dt time.Duration) {
	op := m.logOp(map[string]any{"op": what, "dt": dt.String()})
	br := m.c.NextBlockAfter(dt)
	if br.Panic != "" || br.Err != nil {
		m.rec.Inconclusive(fmt.Sprintf("block failed: %s %v", br.Panic, br.Err))
		m.dead = true
		return
	}
	m.settle(what, "block", m.last.clone(), op)
}

func (m *mon) opTimeTravel(dt time.Duration) {
	m.rec.Count("time_travels", 1)
	m.blockOnly("time-travel", dt)
	if m.dead {
		return
	}
	for _, k := range m.L.actKeys() {
		m.probe(m.L.act[k])
		if m.dead {
			return
		}
	}
}

// ---------------------------------------------------------------------------------------------
// direct licence

func (m *mon) pickClientString() (string, string) {
	r := m.r
	switch x := r.Intn(100); {
	case x < 55:
		return m.pool[r.Intn(len(m.pool))].Bech, "pool"
	case x < 64:
		return strings.ToUpper(m.pool[r.Intn(len(m.pool))].Bech), "upper-case"
	case x < 74:
		opts := []string{m.w.Users[r.Intn(len(m.w.Users))].Bech, m.w.Vals[r.Intn(len(m.w.Vals))].Bech, chain.ModuleAddr("paloma").String(), chain.GovAuthority()}
		return opts[r.Intn(len(opts))], "existing-account"
	case x < 84:
		opts := []string{"", "paloma1invalid", "cosmos1qypqxpq9qcrsszg2pvxq6rs0zqg3yyc5lzv7xu", "0x00000000000000000000000000000000000000aa", m.pool[0].Bech + "x", " " + m.pool[1].Bech}
		return opts[r.Intn(len(opts))], "invalid"
	default:
		m.fresh++
		a := chain.NewAccount(fmt.Sprintf("fresh%d", m.fresh), fmt.Sprintf("%s/fresh/%d", m.w.Users[0].Bech, m.fresh))
		m.byAddr[a.Bech] = a
		return a.Bech, "fresh"
	}
}

func (m *mon) spendable(a string) sdk.Coins {
	return m.c.App.BankKeeper.SpendableCoins(m.c.Ctx(), sdk.MustAccAddressFromBech32(a))
}

func (m *mon) opAddLicence() {
	r := m.r
	pre := m.last
	creator := m.creators[r.Intn(len(m.creators))]
	if ks := m.L.actKeys(); len(ks) > 0 && r.Intn(8) == 0 {
		creator = m.byAddr[ks[r.Intn(len(ks))]] // an activated licensee pays with (partly locked) coins
	}
	clientStr, form := m.pickClientString()
	denom := m.denoms[0]
	if r.Intn(4) == 0 {
		denom = m.denoms[1]
	}
	sp := m.spendable(creator.Bech).AmountOf(denom)
	var amt sdkmath.Int
	amtKind := "random"
	switch x := r.Intn(100); {
	case x < 5:
		amt, amtKind = sdkmath.ZeroInt(), "zero"
	case x < 10:
		amt, amtKind = sdkmath.OneInt(), "one"
	case x < 15:
		amt, amtKind = sp, "exact-spendable"
	case x < 21:
		amt, amtKind = sp.AddRaw(1), "spendable+1"
	case x < 24:
		amt, amtKind = sdkmath.NewIntFromBigInt(new(big.Int).Lsh(big.NewInt(1), 200)), "huge"
	default:
		amt = sdkmath.NewInt(1 + r.Int63n(2_000_000_000))
		if r.Intn(3) == 0 {
			amt = sdkmath.NewInt(1 + r.Int63n(5000))
		}
	}
	coin := sdk.Coin{Denom: denom, Amount: amt}
	coinOK := true
	switch r.Intn(40) {
	case 0:
		coin, coinOK, amtKind = sdk.Coin{Denom: denom, Amount: sdkmath.NewInt(-1 - r.Int63n(1000))}, false, "negative"
	case 1:
		coin, coinOK, amtKind = sdk.Coin{Denom: "", Amount: amt}, false, "no-denom"
	}
	monthsOpts := []uint32{0, 1, 2, 3, 6, 12, 24, 36, 1200, 1<<31 - 1, 1 << 31, 1<<32 - 1}
	months := monthsOpts[r.Intn(len(monthsOpts))]
	if r.Intn(2) == 0 {
		months = uint32(1 + r.Intn(48))
	}

	// class by the property statement
	class, why := shouldSucceed, ""
	canon := ""
	if a, err := sdk.AccAddressFromBech32(clientStr); err != nil {
		class, why = mustFail, "invalid-address"
	} else {
		canon = a.String()
		m.track(canon)
		pre = m.last
		switch {
		case pre.Acct[canon].Exists:
			class, why = mustFail, "address-has-account"
		case m.L.lic[canon] != nil:
			class, why = mustFail, "address-has-licence"
		case m.isModuleAddr(canon):
			class, why = either, "module-address-without-account" // nobody can ever activate it; refusing is fine
		}
	}
	if class == shouldSucceed {
		switch {
		case !coinOK:
			class, why = mustFail, "invalid-coin"
		case amt.IsZero():
			class, why = either, "zero-amount"
		case m.last.Bal[creator.Bech].AmountOf(denom).LT(amt):
			class, why = mustFail, "creator-cannot-pay"
		case sp.LT(amt):
			// a vesting creator: a little more unlocks until the tx runs; whether it suffices is not ours to say
			class, why = either, "creator-coins-partly-locked"
		}
	}
	op := m.logOp(map[string]any{"op": "add-licence", "creator": creator.Bech, "client": clientStr, "client_form": form, "amount": coin.Denom + ":" + coin.Amount.String(),
		"amount_kind": amtKind, "months": months, "class": class, "why": why})
	msg := &palomatypes.MsgAddLightNodeClientLicense{Metadata: world.Meta(creator), ClientAddress: clientStr, Amount: coin, VestingMonths: months}
	res := m.c.Deliver(creator, msg)
	accepted := res.OK()
	op["result"] = ok(accepted)
	if !accepted {
		op["log"] = trunc(res.Log)
	}
	m.rec.Count("licence_direct_"+ok(accepted), 1)
	m.rec.Count("licence_direct_"+ok(accepted)+"_"+form, 1)
	want := pre.clone()
	if accepted {
		if class == mustFail {
			m.vio("add-licence/accepted-"+why, fmt.Sprintf("a licence for %q (%s) was created although: %s", clientStr, coin, why), op, nil, "")
		}
		if canon != "" && coinOK {
			want.Lic[clientStr] = licView{Addr: clientStr, Amount: coin.String(), Months: months}
			want.Escrow = want.Escrow.Add(coin)
			want.debit(creator.Bech, coin)
			if !want.Acct[canon].Exists {
				want.Acct[canon] = acctView{Exists: true, Type: "base"}
				want.NAcc++
			}
			m.L.lic[canon] = &licence{Key: clientStr, Addr: canon, Amount: coin, Months: months, Origin: "direct"}
			if clientStr != canon {
				m.rec.Count("licences_under_non_canonical_key", 1)
			}
		}
	} else {
		if class == shouldSucceed {
			m.unexpectedReject(op, res.Log)
		}
		if class == mustFail {
			m.rec.Count("licence_direct_rejected_"+why, 1)
		}
	}
	m.distinct("add", class+":"+why, ok(accepted), form+"|"+amtKind+"|"+monthsClass(months))
	m.settle("add-licence", ok(accepted), want, op)
}

func (m *mon) isModuleAddr(a string) bool {
	return a == m.escrowAddr || a == chain.GovAuthority()
}

func monthsClass(n uint32) string {
	switch {
	case n == 0:
		return "m0"
	case n <= 48:
		return "m-small"
	case n < 1<<31:
		return "m-large"
	default:
		return "m-huge"
	}
}

func trunc(s string) string {
	if len(s) > 300 {
		return s[:300]
	}
	return s
}

// ---------------------------------------------------------------------------------------------
// activation

func (m *mon) opActivate() {
	r := m.r
	pre := m.last
	// who is to be activated
	var target *chain.Account
	lk, ak := m.L.licKeys(), m.L.actKeys()
	switch x := r.Intn(100); {
	case x < 62 && len(lk) > 0:
		target = m.byAddr[lk[r.Intn(len(lk))]]
	case x < 82 && len(ak) > 0:
		target = m.byAddr[ak[r.Intn(len(ak))]]
	}
	if target == nil {
		target = m.pool[r.Intn(len(m.pool))]
		if r.Intn(4) == 0 {
			target = m.w.Users[r.Intn(len(m.w.Users))]
		}
	}
	lic := m.L.lic[target.Bech]
	variant := "self"
	if lic != nil && r.Intn(100) < 30 || lic == nil && r.Intn(100) < 15 {
		variant = []string{"impostor-signer", "impostor-key", "impostor-behind-own-message"}[r.Intn(3)]
	}
	creatorStr := target.Bech
	if lic != nil && lic.Key != target.Bech && variant == "self" && r.Intn(2) == 0 {
		creatorStr = lic.Key // the licensee names itself the way the licence was keyed (upper-case bech32)
		variant = "self-non-canonical"
	}
	signer := target
	md := world.Meta(target)
	md.Creator = creatorStr
	if variant == "impostor-signer" || variant == "impostor-key" || variant == "impostor-behind-own-message" {
		cands := append([]*chain.Account{}, m.w.Users...)
		for _, k := range ak {
			cands = append(cands, m.byAddr[k])
		}
		signer = cands[r.Intn(len(cands))]
		if signer.Bech == target.Bech {
			signer = m.w.Users[0]
		}
		if variant == "impostor-signer" || variant == "impostor-behind-own-message" {
			md.Signers = []string{signer.Bech} // creator = licensee, declared signer = the impostor
		}
	}
	class, why := mustFail, ""
	switch {
	case variant == "impostor-signer" || variant == "impostor-key" || variant == "impostor-behind-own-message":
		why = "impostor"
	case m.L.act[target.Bech] != nil:
		why = "already-activated"
	case lic == nil:
		why = "no-licence"
	case lic.Key != creatorStr || creatorStr != target.Bech:
		// licence stored under a non-canonical spelling of the address (upper-case bech32): named
		// canonically the chain does not find it, named as stored the ante handler does not accept the
		// licensee's own signature. Refusing is never a violation of this property (the coins stay in escrow).
		class, why = either, "licence-under-non-canonical-key"
	default:
		class = shouldSucceed
	}
	op := m.logOp(map[string]any{"op": "activate", "target": target.Bech, "creator": creatorStr, "signer": signer.Bech, "variant": variant, "class": class, "why": why})
	msg := &palomatypes.MsgRegisterLightNodeClient{Metadata: md}
	var res chain.TxResult
	if variant == "impostor-behind-own-message" {
		// the forged activation travels behind a message the impostor signs in its own name, in one transaction
		own := &palomatypes.MsgAddStatusUpdate{Status: "hello", Level: palomatypes.MsgAddStatusUpdate_LEVEL_INFO, Metadata: world.Meta(signer)}
		res = m.c.Deliver(signer, own, msg)
	} else {
		res = m.c.Deliver(signer, msg)
	}
	accepted := res.OK()
	op["result"] = ok(accepted)
	if !accepted {
		op["log"] = trunc(res.Log)
	}
	want := pre.clone()
	if accepted {
		m.rec.Count("activation_accepted", 1)
		if class == mustFail {
			m.vio("activate/accepted-"+why, fmt.Sprintf("activation of %s (%s, signed by %s) was accepted although: %s", target.Bech, variant, signer.Bech, why), op, nil, "")
		}
		if lic != nil {
			start := m.c.Time.Unix()
			ends := addMonths(start, lic.Months)
			end := ends[0]
			got := m.acctView(m.c.Ctx(), target.Addr)
			for _, e := range ends {
				if got.End == e {
					end = e
				}
			}
			delete(want.Lic, lic.Key)
			sub, neg := want.Escrow.SafeSub(lic.Amount)
			if !neg {
				want.Escrow = sub
			}
			want.credit(target.Bech, lic.Amount)
			want.Acct[target.Bech] = cvaView(lic.Amount, start, end)
			delete(m.L.lic, target.Bech)
			m.L.act[target.Bech] = &activation{Addr: target.Bech, Amount: lic.Amount, Months: lic.Months, Start: start, Ends: ends, End: end}
			m.rec.Count("activation_accepted_"+lic.Origin, 1)
			m.rec.Count("activation_accepted_"+monthsClass(lic.Months), 1)
			if len(ends) > 1 {
				m.rec.Count("activation_on_day_missing_in_end_month", 1)
			}
		}
	} else {
		m.rec.Count("activation_rejected", 1)
		switch why {
		case "impostor":
			if lic != nil {
				m.rec.Count("activation_impostor_rejected", 1)
			}
		case "already-activated":
			m.rec.Count("activation_again_rejected", 1)
		case "no-licence":
			m.rec.Count("activation_without_licence_rejected", 1)
		case "licence-under-non-canonical-key":
			m.rec.Count("activation_stuck_non_canonical_key", 1)
			if !m.stuckSampled {
				m.stuckSampled = true
				m.rec.Sample(map[string]any{"observation": "a licence created for an upper-case bech32 spelling cannot be activated by its owner (outside C18: the coins stay escrowed)", "op": op})
			}
		}
		if class == shouldSucceed {
			m.unexpectedReject(op, res.Log)
		}
	}
	m.distinct("activate", class+":"+why, ok(accepted), variant)
	m.settle("activate", ok(accepted), want, op)
	if accepted && !m.dead && m.L.act[target.Bech] != nil {
		m.probe(m.L.act[target.Bech])
	}
}

// ---------------------------------------------------------------------------------------------
// auth / legacy import: perturbations; nothing the property talks about may move

func (m *mon) opAuth() {
	r := m.r
	cands := append([]*chain.Account{}, m.pool...)
	cands = append(cands, m.w.Users[1])
	who := cands[r.Intn(len(cands))]
	if ks := m.L.actKeys(); len(ks) > 0 && r.Intn(2) == 0 {
		who = m.byAddr[ks[r.Intn(len(ks))]]
	}
	op := m.logOp(map[string]any{"op": "auth", "who": who.Bech})
	res := m.c.Deliver(who, &palomatypes.MsgAuthLightNodeClient{Metadata: world.Meta(who)})
	op["result"] = ok(res.OK())
	m.rec.Count("auth_"+ok(res.OK()), 1)
	if res.OK() && m.L.act[who.Bech] == nil {
		m.rec.Count("auth_accepted_for_non_activated", 1)
	}
	m.settle("auth", ok(res.OK()), m.last.clone(), op)
}

func (m *mon) opLegacy() {
	who := m.w.Users[m.r.Intn(len(m.w.Users))]
	op := m.logOp(map[string]any{"op": "legacy-import", "who": who.Bech})
	res := m.c.Deliver(who, &palomatypes.MsgSetLegacyLightNodeClients{Metadata: world.Meta(who)})
	op["result"] = ok(res.OK())
	m.rec.Count("legacy_import_"+ok(res.OK()), 1)
	m.settle("legacy-import", ok(res.OK()), m.last.clone(), op)
}

// ---------------------------------------------------------------------------------------------
// governance

func execLegacy(ct govv1beta1.Content) (sdk.Msg, error) {
	any, err := codectypes.NewAnyWithValue(ct.(proto.Message))
	if err != nil {
		return nil, err
	}
	return govv1.NewMsgExecLegacyContent(any, chain.GovAuthority()), nil
}

func (m *mon) govDirect(ct govv1beta1.Content) error {
	msg, err := execLegacy(ct)
	if err != nil {
		return err
	}
	_, err = m.c.Direct(msg, m.c.Height, m.c.Time)
	return err
}

func (m *mon) fundersContent(list []string) govv1beta1.Content {
	return &palomatypes.SetLightNodeClientFundersProposal{Title: "funders", Description: "funders", FunderAccounts: list}
}

func (m *mon) feegranterContent(a string) govv1beta1.Content {
	return &palomatypes.SetLightNodeClientFeegranterProposal{Title: "fee granter", Description: "fee granter", FeegranterAccount: a}
}

func (m *mon) contractsContent(cs map[string]string) govv1beta1.Content {
	p := &skywaytypes.SetLightNodeSaleContractsProposal{Title: "sale contracts", Description: "sale contracts"}
	var ks []string
	for k := range cs {
		ks = append(ks, k)
	}
	sort.Strings(ks)
	for _, k := range ks {
		p.LightNodeSaleContracts = append(p.LightNodeSaleContracts, &skywaytypes.LightNodeSaleContract{ChainReferenceId: k, ContractAddress: cs[k]})
	}
	return p
}

func (m *mon) randomFunders() []string {
	r := m.r
	var list []string
	if r.Intn(7) == 0 {
		return list // set to nothing: sales must stop
	}
	for _, f := range m.funderC {
		if r.Intn(3) > 0 {
			list = append(list, f.Bech)
		}
	}
	if ks := m.L.actKeys(); len(ks) > 0 && r.Intn(5) == 0 {
		list = append(list, ks[r.Intn(len(ks))]) // a funder whose coins are (partly) locked
	}
	if r.Intn(6) == 0 {
		list = append(list, chain.NewAccount("ghost", "c18/ghost-funder").Bech) // no account, no coins
	}
	r.Shuffle(len(list), func(i, j int) { list[i], list[j] = list[j], list[i] })
	return list
}

func (m *mon) randomContracts() map[string]string {
	r := m.r
	cs := map[string]string{}
	for i, ch := range m.w.Chains {
		if r.Intn(5) > 0 {
			cs[ch] = m.contracts[r.Intn(len(m.contracts))]
			if i > 0 && r.Intn(2) == 0 {
				cs[ch] = m.contracts[1] // more often than not the chains have different sale contracts
			}
		}
	}
	return cs
}

func (m *mon) opConfig() {
	r := m.r
	var ct govv1beta1.Content
	var apply func()
	var desc map[string]any
	switch r.Intn(3) {
	case 0:
		list := m.randomFunders()
		ct = m.fundersContent(list)
		apply = func() { m.L.cfg.Funders, m.L.cfg.FundersSet = list, true }
		desc = map[string]any{"op": "gov-set-funders", "funders": list}
	case 1:
		fg := m.fgC[r.Intn(len(m.fgC))].Bech
		ct = m.feegranterContent(fg)
		apply = func() { m.L.cfg.Feegranter = fg }
		desc = map[string]any{"op": "gov-set-fee-granter", "fee_granter": fg}
	default:
		cs := m.randomContracts()
		ct = m.contractsContent(cs)
		apply = func() { m.L.cfg.Contracts = cs }
		desc = map[string]any{"op": "gov-set-sale-contracts", "contracts": cs}
	}
	op := m.logOp(desc)
	err := m.govDirect(ct)
	op["result"] = ok(err == nil)
	if err != nil {
		m.rec.Inconclusive(fmt.Sprintf("governance content rejected: %v", err))
		m.dead = true
		return
	}
	apply()
	m.rec.Count("gov_config_changes", 1)
	for _, f := range m.L.cfg.Funders {
		m.track(f)
	}
	m.checkConfigReadback()
	m.settle("gov-config", "accepted", m.last.clone(), op)
}

// completeConfig fills in whatever part of the sale configuration is missing (direct governance).
func (m *mon) completeConfig() {
	op := m.logOp(map[string]any{"op": "gov-complete-config"})
	if m.L.cfg.Feegranter == "" {
		fg := m.fgC[m.r.Intn(len(m.fgC))].Bech
		if err := m.govDirect(m.feegranterContent(fg)); err != nil {
			m.rec.Inconclusive("gov: " + err.Error())
			m.dead = true
			return
		}
		m.L.cfg.Feegranter = fg
	}
	if len(m.L.cfg.Funders) == 0 {
		list := []string{m.funderC[0].Bech, m.funderC[1].Bech, m.funderC[2].Bech}
		if err := m.govDirect(m.fundersContent(list)); err != nil {
			m.rec.Inconclusive("gov: " + err.Error())
			m.dead = true
			return
		}
		m.L.cfg.Funders, m.L.cfg.FundersSet = list, true
	}
	missing := false
	for _, ch := range m.w.Chains {
		if _, has := m.L.cfg.Contracts[ch]; !has {
			missing = true
		}
	}
	if missing {
		cs := map[string]string{}
		for i, ch := range m.w.Chains {
			cs[ch] = m.contracts[i%len(m.contracts)]
		}
		if err := m.govDirect(m.contractsContent(cs)); err != nil {
			m.rec.Inconclusive("gov: " + err.Error())
			m.dead = true
			return
		}
		m.L.cfg.Contracts = cs
	}
	m.rec.Count("gov_config_changes", 1)
	m.checkConfigReadback()
	m.settle("gov-config", "accepted", m.last.clone(), op)
}

// opConfigReal: the same three contents through a REAL governance round (signed
// MsgSubmitProposal through ante, signed votes by every validator, voting period, gov
// end-blocker executes the legacy handler).
func (m *mon) opConfigReal() {
	c := m.c
	funders := []string{m.funderC[0].Bech, m.funderC[1].Bech}
	fg := m.fgC[0].Bech
	cs := map[string]string{}
	for _, ch := range m.w.Chains {
		cs[ch] = m.contracts[0]
	}
	op := m.logOp(map[string]any{"op": "gov-real-round", "funders": funders, "fee_granter": fg, "contracts": cs})
	var msgs []sdk.Msg
	for _, ct := range []govv1beta1.Content{m.fundersContent(funders), m.feegranterContent(fg), m.contractsContent(cs)} {
		msg, err := execLegacy(ct)
		if err != nil {
			m.rec.Inconclusive("gov: " + err.Error())
			m.dead = true
			return
		}
		msgs = append(msgs, msg)
	}
	fail := func(s string) {
		m.rec.Inconclusive("real governance round: " + s)
		m.dead = true
	}
	deposit := sdk.NewCoins(sdk.NewInt64Coin(chain.Denom, 10_000))
	sp, err := govv1.NewMsgSubmitProposal(msgs, deposit, m.bank.Bech, "", "light node sale set-up", "C18: funders, fee granter, sale contracts", false)
	if err != nil {
		fail(err.Error())
		return
	}
	res := c.Deliver(m.bank, sp)
	if !res.OK() {
		fail("submit: " + res.Log)
		return
	}
	pidStr, _ := chain.EventAttr(res.Events, "submit_proposal", "proposal_id")
	var pid uint64
	fmt.Sscanf(pidStr, "%d", &pid)
	for _, v := range m.w.Vals {
		if err := c.QueueTx(v, 0, govv1.NewMsgVote(v.Addr, pid, govv1.OptionYes, "")); err != nil {
			fail(err.Error())
			return
		}
	}
	if br := c.NextBlock(); br.Panic != "" || br.Err != nil {
		fail("vote block")
		return
	}
	passed := false
	for i := 0; i < 40 && !passed; i++ {
		p, err := c.App.GovKeeper.Proposals.Get(c.Ctx(), pid)
		if err != nil {
			fail(err.Error())
			return
		}
		switch p.Status {
		case govv1.StatusPassed:
			passed = true
			continue
		case govv1.StatusFailed, govv1.StatusRejected:
			fail("proposal " + p.Status.String() + ": " + p.FailedReason)
			return
		}
		c.Skip(1)
	}
	if !passed {
		fail("proposal did not finish")
		return
	}
	m.L.cfg.Funders, m.L.cfg.FundersSet, m.L.cfg.Feegranter, m.L.cfg.Contracts = funders, true, fg, cs
	m.rec.Count("gov_real_rounds", 1)
	m.checkConfigReadback()
	// the deposit is refunded when the proposal passes: balances are as before
	m.settle("gov-real-round", "passed", m.last.clone(), op)
}

// checkConfigReadback: the ledger's view of the configuration against what the chain stores
// (a mismatch means the monitor no longer knows the configuration -> inconclusive, not a verdict).
func (m *mon) checkConfigReadback() {
	ctx := m.c.Ctx()
	var got []string
	if f, err := m.c.App.PalomaKeeper.LightNodeClientFunders(ctx); err == nil && f != nil {
		for _, a := range f.Accounts {
			got = append(got, a.String())
		}
	}
	if strings.Join(got, ",") != strings.Join(m.L.cfg.Funders, ",") {
		m.rec.Inconclusive(fmt.Sprintf("funders read back %v, ledger %v", got, m.L.cfg.Funders))
	}
	gfg := ""
	if f, err := m.c.App.PalomaKeeper.LightNodeClientFeegranter(ctx); err == nil && f != nil {
		gfg = f.Account.String()
	}
	if gfg != m.L.cfg.Feegranter {
		m.rec.Inconclusive(fmt.Sprintf("fee granter read back %q, ledger %q", gfg, m.L.cfg.Feegranter))
	}
	cs, _ := m.c.App.SkywayKeeper.AllLightNodeSaleContracts(ctx)
	gc := map[string]string{}
	for _, x := range cs {
		gc[x.ChainReferenceId] = x.ContractAddress
	}
	if fmt.Sprint(gc) != fmt.Sprint(m.L.cfg.Contracts) {
		m.rec.Inconclusive(fmt.Sprintf("sale contracts read back %v, ledger %v", gc, m.L.cfg.Contracts))
	}
}

// ---------------------------------------------------------------------------------------------
// money moves around the licences

func (m *mon) send(opKind string, from *chain.Account, to string, coin sdk.Coin, op map[string]any, class string) bool {
	m.track(to)
	pre := m.last
	if class == shouldSucceed && m.L.act[from.Bech] == nil && pre.Bal[from.Bech].AmountOf(coin.Denom).LT(coin.Amount) {
		return false // the (plain) sender does not have the coins: not an experiment
	}
	res := m.c.Deliver(from, &banktypes.MsgSend{FromAddress: from.Bech, ToAddress: to, Amount: sdk.NewCoins(coin)})
	op["result"] = ok(res.OK())
	want := pre.clone()
	if res.OK() {
		want.debit(from.Bech, coin)
		want.credit(to, coin)
		if !want.Acct[to].Exists {
			want.Acct[to] = acctView{Exists: true, Type: "base"}
			want.NAcc++
		}
	} else {
		op["log"] = trunc(res.Log)
		if class == shouldSucceed {
			m.unexpectedReject(op, res.Log)
		}
	}
	m.settle(opKind, ok(res.OK()), want, op)
	return res.OK()
}

// opFundMove pins a funder's balance to k GRAIN (+-1 ugrain): the next sales hit exact / just
// insufficient balances.
func (m *mon) opFundMove() {
	r := m.r
	f := m.funderC[r.Intn(len(m.funderC))]
	k := int64(r.Intn(3000))
	if r.Intn(4) == 0 {
		k = int64(r.Intn(20))
	}
	target := sdkmath.NewInt(k * 1_000_000).AddRaw(int64([]int{0, 0, 0, -1, 1}[r.Intn(5)]))
	if target.IsNegative() {
		target = sdkmath.ZeroInt()
	}
	have := m.last.Bal[f.Bech].AmountOf(chain.Denom)
	m.rec.Count("funder_balance_pinned", 1)
	switch {
	case have.GT(target):
		op := m.logOp(map[string]any{"op": "funder-drain", "funder": f.Bech, "to_balance": target.String()})
		m.send("funder-move", f, m.bank.Bech, sdk.NewCoin(chain.Denom, have.Sub(target)), op, shouldSucceed)
	case have.LT(target):
		op := m.logOp(map[string]any{"op": "funder-top-up", "funder": f.Bech, "to_balance": target.String()})
		m.send("funder-move", m.bank, f.Bech, sdk.NewCoin(chain.Denom, target.Sub(have)), op, shouldSucceed)
	}
}

func (m *mon) opGift() {
	r := m.r
	to := m.pool[r.Intn(len(m.pool))]
	denom := m.denoms[r.Intn(2)]
	coin := sdk.NewCoin(denom, sdkmath.NewInt(1+r.Int63n(5_000_000)))
	if m.last.Bal[m.bank.Bech].AmountOf(denom).LT(coin.Amount) {
		return
	}
	st := "no-account"
	switch {
	case m.L.act[to.Bech] != nil:
		st = "activated"
	case m.L.lic[to.Bech] != nil:
		st = "licensed"
	case m.last.Acct[to.Bech].Exists:
		st = "plain-account"
	}
	op := m.logOp(map[string]any{"op": "gift", "to": to.Bech, "coin": coin.String(), "recipient_state": st})
	m.rec.Count("gifts_to_"+st, 1)
	m.send("gift", m.bank, to.Bech, coin, op, shouldSucceed)
}

// opSpend: an activated licensee sends coins away - exactly what is unlocked by the ledger's
// reckoning must go through, anything above must not.
func (m *mon) opSpend() {
	ks := m.L.actKeys()
	if len(ks) == 0 {
		return
	}
	r := m.r
	a := m.L.act[ks[r.Intn(len(ks))]]
	acct := m.byAddr[a.Addr]
	denom := a.Amount.Denom
	bal := m.last.Bal[a.Addr].AmountOf(denom).BigInt()
	t := m.c.Time.Unix() + 2 // block time of the next block
	lo, hi := vestedExact(a.Amount.Amount.BigInt(), a.Start, a.End, t)
	tol := vestTolerance(a.Amount.Amount.BigInt())
	// spendable = balance - (amount - vested); sure bounds with tolerance
	lockedMax := new(big.Int).Sub(a.Amount.Amount.BigInt(), new(big.Int).Sub(lo, tol))
	lockedMin := new(big.Int).Sub(a.Amount.Amount.BigInt(), new(big.Int).Add(hi, tol))
	if lockedMin.Sign() < 0 {
		lockedMin.SetInt64(0)
	}
	if lockedMax.Cmp(a.Amount.Amount.BigInt()) > 0 {
		lockedMax.Set(a.Amount.Amount.BigInt())
	}
	spendSure := new(big.Int).Sub(bal, lockedMax) // certainly spendable
	spendMax := new(big.Int).Sub(bal, lockedMin)  // certainly not more than this
	if spendSure.Sign() < 0 {
		spendSure.SetInt64(0)
	}
	if spendMax.Sign() < 0 {
		spendMax.SetInt64(0)
	}
	var x *big.Int
	kind := ""
	switch r.Intn(5) {
	case 0:
		x, kind = new(big.Int).Set(spendSure), "all-unlocked"
	case 1:
		x, kind = new(big.Int).Add(spendMax, big.NewInt(1)), "one-above-unlocked"
	case 2:
		x, kind = new(big.Int).Set(bal), "whole-balance"
	case 3:
		x, kind = new(big.Int).Add(spendMax, new(big.Int).Rsh(new(big.Int).Sub(bal, spendMax), 1)), "into-locked-half"
	default:
		x, kind = new(big.Int).Rsh(spendSure, 1), "half-unlocked"
	}
	if x.Sign() <= 0 {
		return
	}
	class, why := either, ""
	switch {
	case x.Cmp(spendSure) <= 0:
		class = shouldSucceed
	case x.Cmp(spendMax) > 0:
		class, why = mustFail, "locked-coins"
	}
	op := m.logOp(map[string]any{"op": "licensee-spend", "who": a.Addr, "amount": x.String() + denom, "kind": kind, "class": class, "why": why,
		"balance": bal.String(), "unlocked_sure": spendSure.String(), "unlocked_max": spendMax.String()})
	okSent := m.send("licensee-spend", acct, m.bank.Bech, sdk.NewCoin(denom, sdkmath.NewIntFromBigInt(x)), op, class)
	m.rec.Count("licensee_spend_"+ok(okSent), 1)
	m.distinct("spend", class, ok(okSent), kind)
	if okSent && class == mustFail && !m.dead {
		m.vio("licensee-spend/accepted-locked-coins", fmt.Sprintf("%s sent %s%s although at most %s were unlocked", a.Addr, x, denom, spendMax), op, nil, "")
	}
}

// ---------------------------------------------------------------------------------------------
// vesting probes: what the account, the bank and a what-if transfer say at chosen instants

func (m *mon) probe(a *activation) {
	c := m.c
	addr := sdk.MustAccAddressFromBech32(a.Addr)
	amount := a.Amount.Amount.BigInt()
	denom := a.Amount.Denom
	tol := vestTolerance(amount)
	span := a.End - a.Start
	times := []int64{a.Start - 1, a.Start, a.Start + 1, a.Start + span/4, a.Start + span/2, a.Start + span/4*3, a.End - 1, a.End, a.End + 1, c.Time.Unix()}
	if span > 10 {
		times = append(times, a.Start+1+m.r.Int63n(span-1))
	}
	ok := false
	for _, e := range a.Ends {
		if e == a.End {
			ok = true
		}
	}
	m.rec.Eval(1)
	if !ok {
		m.vio("vesting/end-time", fmt.Sprintf("%s: activated at %d for %d months, vesting ends at %d, expected one of %v", a.Addr, a.Start, a.Months, a.End, a.Ends), map[string]any{"op": "probe", "who": a.Addr}, nil, "")
		return
	}
	acc, isCVA := c.App.AccountKeeper.GetAccount(c.Ctx(), addr).(*vestingtypes.ContinuousVestingAccount)
	if !isCVA {
		m.vio("vesting/account-type", fmt.Sprintf("%s is not a continuous vesting account after activation", a.Addr), map[string]any{"op": "probe", "who": a.Addr}, nil, "")
		return
	}
	bal := m.last.Bal[a.Addr].AmountOf(denom).BigInt()
	for _, t := range times {
		if t < 0 {
			continue
		}
		lo, hi := vestedExact(amount, a.Start, a.End, t)
		lo = new(big.Int).Sub(lo, tol)
		hi = new(big.Int).Add(hi, tol)
		if t <= a.Start {
			lo, hi = new(big.Int), new(big.Int) // nothing is unlocked before / at the start
		}
		if t >= a.End {
			lo, hi = amount, amount // everything at the end
		}
		if a.Start == a.End && t == a.Start {
			lo, hi = new(big.Int), amount // a period of zero length: the instant of activation is both start and end
		}
		opd := map[string]any{"op": "probe", "who": a.Addr, "t": t, "start": a.Start, "end": a.End, "amount": amount.String() + denom, "linear_lo": lo.String(), "linear_hi": hi.String()}
		tm := time.Unix(t, 0).UTC()
		// (a) the account's own schedule
		vested := acc.GetVestedCoins(tm).AmountOf(denom).BigInt()
		m.rec.Eval(1)
		m.rec.Count("vesting_probes", 1)
		if vested.Cmp(lo) < 0 || vested.Cmp(hi) > 0 {
			opd["vested"] = vested.String()
			m.vio("vesting/vested-amount-not-linear", fmt.Sprintf("%s at t=%d: vested %s, linear schedule gives [%s,%s]", a.Addr, t, vested, lo, hi), opd, nil, "")
			return
		}
		// (b) what the bank lets the licensee spend at that instant
		ctx := c.CtxAt(c.Height, tm)
		sp := c.App.BankKeeper.SpendableCoins(ctx, addr).AmountOf(denom).BigInt()
		spLo := new(big.Int).Sub(bal, new(big.Int).Sub(amount, lo))
		spHi := new(big.Int).Sub(bal, new(big.Int).Sub(amount, hi))
		if spLo.Sign() < 0 {
			spLo.SetInt64(0)
		}
		if spHi.Sign() < 0 {
			spHi.SetInt64(0)
		}
		m.rec.Eval(1)
		if sp.Cmp(spLo) < 0 || sp.Cmp(spHi) > 0 {
			opd["spendable"] = sp.String()
			opd["balance"] = bal.String()
			m.vio("vesting/spendable-not-linear", fmt.Sprintf("%s at t=%d: spendable %s, balance %s, linear schedule gives [%s,%s]", a.Addr, t, sp, bal, spLo, spHi), opd, nil, "")
			return
		}
		// (c) what-if transfers on a throw-away fork at that instant
		if m.r.Intn(3) == 0 {
			over := new(big.Int).Add(spHi, big.NewInt(1))
			if over.Cmp(bal) <= 0 {
				fork := c.Fork(c.Height, tm)
				err := c.App.BankKeeper.SendCoins(fork, addr, m.bank.Addr, sdk.NewCoins(sdk.NewCoin(denom, sdkmath.NewIntFromBigInt(over))))
				m.rec.Eval(1)
				m.rec.Count("vesting_whatif_sends", 1)
				if err == nil {
					opd["sent"] = over.String()
					m.vio("vesting/locked-coins-transferable", fmt.Sprintf("%s at t=%d could transfer %s although at most %s are unlocked", a.Addr, t, over, spHi), opd, nil, "")
					return
				}
			}
			if spLo.Sign() > 0 {
				fork := c.Fork(c.Height, tm)
				err := c.App.BankKeeper.SendCoins(fork, addr, m.bank.Addr, sdk.NewCoins(sdk.NewCoin(denom, sdkmath.NewIntFromBigInt(spLo))))
				m.rec.Eval(1)
				m.rec.Count("vesting_whatif_sends", 1)
				if err != nil {
					opd["sent"] = spLo.String()
					m.vio("vesting/unlocked-coins-not-transferable", fmt.Sprintf("%s at t=%d could not transfer %s although they are unlocked: %v", a.Addr, t, spLo, err), opd, nil, "")
					return
				}
			}
		}
	}
	switch {
	case c.Time.Unix() >= a.End:
		m.rec.Count("vesting_probed_after_end", 1)
	case c.Time.Unix() > a.Start+span/2:
		m.rec.Count("vesting_probed_second_half", 1)
	case c.Time.Unix() > a.Start:
		m.rec.Count("vesting_probed_first_half", 1)
	}
}
