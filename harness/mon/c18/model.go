package c18

import (
	"fmt"
	"math/big"
	"sort"
	"strings"

	sdkmath "cosmossdk.io/math"
	sdk "github.com/cosmos/cosmos-sdk/types"
)

// ---------------------------------------------------------------------------------------------
// Reference ledger. Everything in this file is independent of the code under test: plain maps,
// big-int arithmetic and a civil calendar written from scratch.

// licence: a paid, not yet activated licence, as the monitor's ledger knows it.
type licence struct {
	Key    string   // the address STRING the licence was created under (store key of the real code)
	Addr   string   // canonical (lower-case bech32) form of the licensed address
	Amount sdk.Coin // escrowed coins
	Months uint32
	Origin string // direct | sale
}

// activation: a licence that was activated; the schedule is fixed at that moment for ever.
type activation struct {
	Addr   string
	Amount sdk.Coin
	Months uint32
	Start  int64   // unix seconds = block time of the activating transaction
	Ends   []int64 // acceptable end times (two readings of "N calendar months later", see addMonths)
	End    int64   // the end the chain actually stored (must be one of Ends), fixed at activation
}

// config: what governance configured for attested sales.
type config struct {
	Funders    []string // nil = never set; empty = set to nothing
	FundersSet bool
	Feegranter string            // "" = never set
	Contracts  map[string]string // chain -> authorised sale contract
}

func (c config) bits() string {
	b := []byte("---")
	if c.Feegranter != "" {
		b[0] = 'G'
	}
	if len(c.Funders) > 0 {
		b[1] = 'F'
	}
	if len(c.Contracts) > 0 {
		b[2] = 'C'
	}
	return string(b)
}

type ledger struct {
	lic map[string]*licence    // by canonical address
	act map[string]*activation // by canonical address
	cfg config
}

func newLedger() *ledger {
	return &ledger{lic: map[string]*licence{}, act: map[string]*activation{}, cfg: config{Contracts: map[string]string{}}}
}

// escrowDue: sum of all not-yet-activated licences, per denom (exact).
func (l *ledger) escrowDue() map[string]*big.Int {
	out := map[string]*big.Int{}
	for _, x := range l.lic {
		d := x.Amount.Denom
		if out[d] == nil {
			out[d] = new(big.Int)
		}
		out[d].Add(out[d], x.Amount.Amount.BigInt())
	}
	return out
}

func (l *ledger) licKeys() []string {
	var ks []string
	for k := range l.lic {
		ks = append(ks, k)
	}
	sort.Strings(ks)
	return ks
}

func (l *ledger) actKeys() []string {
	var ks []string
	for k := range l.act {
		ks = append(ks, k)
	}
	sort.Strings(ks)
	return ks
}

// ---------------------------------------------------------------------------------------------
// civil calendar (proleptic Gregorian, UTC), after Howard Hinnant's public-domain algorithms.
// No use of package time: this is the independent reading of "N months after activation".

func floorDiv(a, b int64) int64 {
	q := a / b
	if (a%b != 0) && ((a < 0) != (b < 0)) {
		q--
	}
	return q
}

func daysFromCivil(y, m, d int64) int64 {
	if m <= 2 {
		y--
	}
	era := floorDiv(y, 400)
	yoe := y - era*400
	mp := (m + 9) % 12
	doy := (153*mp+2)/5 + d - 1
	doe := yoe*365 + yoe/4 - yoe/100 + doy
	return era*146097 + doe - 719468
}

func civilFromDays(z int64) (y, m, d int64) {
	z += 719468
	era := floorDiv(z, 146097)
	doe := z - era*146097
	yoe := (doe - doe/1460 + doe/36524 - doe/146096) / 365
	y = yoe + era*400
	doy := doe - (365*yoe + yoe/4 - yoe/100)
	mp := (5*doy + 2) / 153
	d = doy - (153*mp+2)/5 + 1
	if mp < 10 {
		m = mp + 3
	} else {
		m = mp - 9
	}
	if m <= 2 {
		y++
	}
	return
}

func daysInMonth(y, m int64) int64 {
	switch m {
	case 4, 6, 9, 11:
		return 30
	case 2:
		if (y%4 == 0 && y%100 != 0) || y%400 == 0 {
			return 29
		}
		return 28
	}
	return 31
}

// addMonths returns the acceptable unix times "n calendar months after t": same day-of-month and
// time-of-day n months later; when that day does not exist (31 Jan + 1 month) both customary
// readings are accepted - roll over into the next month (what most date libraries do) or clamp
// to the last day of the month.
func addMonths(t int64, n uint32) []int64 {
	days := floorDiv(t, 86400)
	sec := t - days*86400
	y, m, d := civilFromDays(days)
	mm := (m - 1) + int64(n)
	y += mm / 12
	m = mm%12 + 1
	roll := (daysFromCivil(y, m, 1)+d-1)*86400 + sec
	dc := d
	if dim := daysInMonth(y, m); dc > dim {
		dc = dim
	}
	clamp := daysFromCivil(y, m, dc)*86400 + sec
	if clamp == roll {
		return []int64{roll}
	}
	return []int64{roll, clamp}
}

// vestedExact: floor and ceiling of amount * (t-start)/(end-start), clamped to [0, amount].
func vestedExact(amount *big.Int, start, end, t int64) (lo, hi *big.Int) {
	if t <= start {
		return new(big.Int), new(big.Int)
	}
	if t >= end {
		return new(big.Int).Set(amount), new(big.Int).Set(amount)
	}
	num := new(big.Int).Mul(amount, big.NewInt(t-start))
	den := big.NewInt(end - start)
	q, r := new(big.Int).QuoRem(num, den, new(big.Int))
	lo = q
	hi = new(big.Int).Set(q)
	if r.Sign() != 0 {
		hi.Add(hi, big.NewInt(1))
	}
	return
}

// vestTolerance: a linear unlock may be rounded to the unit and computed with 18-digit decimal
// fractions (the precision of on-chain fixed-point numbers): 1 unit + amount/1e18.
func vestTolerance(amount *big.Int) *big.Int {
	tol := new(big.Int).Quo(amount, new(big.Int).Exp(big.NewInt(10), big.NewInt(18), nil))
	return tol.Add(tol, big.NewInt(2))
}

// ---------------------------------------------------------------------------------------------
// observed state (filled from the real chain by observe() in ops.go) and its comparison

type acctView struct {
	Exists bool
	Type   string // base | cva | module | other:<T>
	OV     string // original vesting (cva)
	Start  int64
	End    int64
	Deleg  string // delegated free+vesting (cva) - must stay empty in this workload
}

func (a acctView) String() string {
	if !a.Exists {
		return "none"
	}
	if a.Type == "cva" {
		return fmt.Sprintf("cva{ov=%s start=%d end=%d deleg=%s}", a.OV, a.Start, a.End, a.Deleg)
	}
	return a.Type
}

type licView struct {
	Addr   string
	Amount string
	Months uint32
}

func (l licView) String() string { return fmt.Sprintf("{%s %s %dm}", l.Addr, l.Amount, l.Months) }

type obs struct {
	Height int64
	Time   int64
	Escrow sdk.Coins
	Lic    map[string]licView   // by the ClientAddress string stored in the record
	Bal    map[string]sdk.Coins // tracked accounts, by canonical address
	Acct   map[string]acctView  // tracked accounts
	Grants map[string]bool      // "granter>grantee", ALL fee allowances on the chain
	NAcc   int                  // number of accounts on the chain (new accounts anywhere are seen)
}

func (o *obs) clone() *obs {
	n := &obs{Height: o.Height, Time: o.Time, Escrow: append(sdk.Coins{}, o.Escrow...), Lic: map[string]licView{}, Bal: map[string]sdk.Coins{},
		Acct: map[string]acctView{}, Grants: map[string]bool{}, NAcc: o.NAcc}
	for k, v := range o.Lic {
		n.Lic[k] = v
	}
	for k, v := range o.Bal {
		n.Bal[k] = append(sdk.Coins{}, v...)
	}
	for k, v := range o.Acct {
		n.Acct[k] = v
	}
	for k, v := range o.Grants {
		n.Grants[k] = v
	}
	return n
}

func (o *obs) credit(addr string, c sdk.Coin) { o.Bal[addr] = o.Bal[addr].Add(c) }

// debit subtracts and reports whether the balance sufficed (an expected state never goes negative).
func (o *obs) debit(addr string, c sdk.Coin) bool {
	res, neg := o.Bal[addr].SafeSub(c)
	if neg {
		return false
	}
	o.Bal[addr] = res
	return true
}

type diffItem struct {
	Field string `json:"field"` // escrow | licence-set | balance | account | grant | account-count
	Key   string `json:"key"`
	Want  string `json:"want"`
	Got   string `json:"got"`
}

// diffObs lists every difference between the expected and the observed state.
func diffObs(want, got *obs) []diffItem {
	var d []diffItem
	if !want.Escrow.Equal(got.Escrow) {
		d = append(d, diffItem{"escrow", "paloma-module", want.Escrow.String(), got.Escrow.String()})
	}
	keys := map[string]bool{}
	for k := range want.Lic {
		keys[k] = true
	}
	for k := range got.Lic {
		keys[k] = true
	}
	for _, k := range sortedKeys(keys) {
		w, wok := want.Lic[k]
		g, gok := got.Lic[k]
		ws, gs := "absent", "absent"
		if wok {
			ws = w.String()
		}
		if gok {
			gs = g.String()
		}
		if ws != gs {
			d = append(d, diffItem{"licence-set", k, ws, gs})
		}
	}
	keys = map[string]bool{}
	for k := range want.Bal {
		keys[k] = true
	}
	for k := range got.Bal {
		keys[k] = true
	}
	for _, k := range sortedKeys(keys) {
		if !want.Bal[k].Equal(got.Bal[k]) {
			d = append(d, diffItem{"balance", k, want.Bal[k].String(), got.Bal[k].String()})
		}
	}
	keys = map[string]bool{}
	for k := range want.Acct {
		keys[k] = true
	}
	for k := range got.Acct {
		keys[k] = true
	}
	for _, k := range sortedKeys(keys) {
		if want.Acct[k].String() != got.Acct[k].String() {
			d = append(d, diffItem{"account", k, want.Acct[k].String(), got.Acct[k].String()})
		}
	}
	keys = map[string]bool{}
	for k := range want.Grants {
		keys[k] = true
	}
	for k := range got.Grants {
		keys[k] = true
	}
	for _, k := range sortedKeys(keys) {
		if want.Grants[k] != got.Grants[k] {
			d = append(d, diffItem{"grant", k, fmt.Sprint(want.Grants[k]), fmt.Sprint(got.Grants[k])})
		}
	}
	if want.NAcc != got.NAcc {
		d = append(d, diffItem{"account-count", "auth", fmt.Sprint(want.NAcc), fmt.Sprint(got.NAcc)})
	}
	return d
}

func sortedKeys(m map[string]bool) []string {
	var ks []string
	for k := range m {
		ks = append(ks, k)
	}
	sort.Strings(ks)
	return ks
}

func fields(d []diffItem) string {
	seen := map[string]bool{}
	for _, x := range d {
		seen[x.Field] = true
	}
	return strings.Join(sortedKeys(seen), "+")
}

func bigOf(i sdkmath.Int) *big.Int { return i.BigInt() }
