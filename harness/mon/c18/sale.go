package c18

import (
	"fmt"
	"math/big"
	"strings"

	sdkmath "cosmossdk.io/math"
	"cosmossdk.io/x/feegrant"
	sdk "github.com/cosmos/cosmos-sdk/types"
	authtypes "github.com/cosmos/cosmos-sdk/x/auth/types"
	banktypes "github.com/cosmos/cosmos-sdk/x/bank/types"

	palomatypes "github.com/palomachain/paloma/v2/x/paloma/types"

	"verif/harness/chain"
	"verif/harness/world"
)

// saleEv: a node-sale event the (simulated) remote sale contract emitted; every validator's
// pigeon reports it with the same skyway nonce.
type saleEv struct {
	Chain    string   `json:"chain"`
	Nonce    uint64   `json:"nonce"`
	EthH     uint64   `json:"eth_height"`
	Client   string   `json:"client"`
	Form     string   `json:"client_form"`
	Amount   *big.Int `json:"amount_grain"`
	AmtKind  string   `json:"amount_kind"`
	Contract string   `json:"contract"`
	CKind    string   `json:"contract_kind,omitempty"` // how the contract address relates to the configuration (authz.go)
	Phantom  bool     `json:"phantom_chain,omitempty"` // the chain reference is no chain the bridge knows
	Viable   bool     `json:"viable_but_for_contract,omitempty"`
	Class    string   `json:"class"`
	Why      string   `json:"why"`
	Accepted bool     `json:"accepted"`
	canon    string
	compass  string // compass id to report (default: the one of e.Chain)
}

func (e saleEv) price() *big.Int { return new(big.Int).Mul(e.Amount, million) }

// the raw stores a sale without effect must leave untouched: licences + configuration, balances,
// fee allowances, accounts
var saleStores = []string{palomatypes.StoreKey, banktypes.StoreKey, feegrant.StoreKey, authtypes.StoreKey}

func (m *mon) dumpSaleStores() map[string]map[string]string {
	out := map[string]map[string]string{}
	ctx := m.c.Ctx()
	for _, s := range saleStores {
		if m.c.KVStore(ctx, s) == nil {
			m.rec.Inconclusive("no such store: " + s)
		}
		out[s] = m.c.DumpStore(ctx, s)
	}
	return out
}

// storeChanges lists raw store keys that changed, leaving out the account records of the
// validators (their sequence numbers move with every claim they sign).
func (m *mon) storeChanges(a, b map[string]map[string]string) []string {
	var out []string
	for _, s := range saleStores {
		for _, k := range chain.DiffStores(a[s], b[s]) {
			if s == authtypes.StoreKey {
				skip := false
				for _, v := range m.w.Vals {
					if strings.HasSuffix(k, fmt.Sprintf("01%x", []byte(v.Addr))) {
						skip = true
					}
				}
				if skip {
					continue
				}
			}
			out = append(out, s+":"+k)
		}
	}
	return out
}

func (m *mon) lastObserved(ch string) uint64 {
	n, _ := m.c.App.SkywayKeeper.GetLastObservedSkywayNonce(m.c.Ctx(), ch)
	return n
}

// classifySale: what the property statement says about this event in the given (running) state.
// The authorisation of the reporting contract is judged first (authz.go: classifyContract), then
// everything else; e.Viable records that the contract is the ONLY thing standing in the way.
func (m *mon) classifySale(e *saleEv, st *obs, lic map[string]bool, earlierAccepted bool) (string, string) {
	aClass, aWhy := m.classifyContract(e)
	rClass, rWhy := m.classifyRest(e, st, lic, earlierAccepted)
	e.Viable = false
	switch {
	case aClass == mustFail:
		e.Viable = rClass == shouldSucceed
		return aClass, aWhy
	case rClass == mustFail || rWhy == "module-address-without-account" || rWhy == "zero-amount":
		return rClass, rWhy
	case aClass == either:
		return aClass, aWhy
	}
	return rClass, rWhy
}

// classifyRest: everything but the sale contract - fee granter, funders, buyer address, amount,
// funder balances.
func (m *mon) classifyRest(e *saleEv, st *obs, lic map[string]bool, earlierAccepted bool) (string, string) {
	cfg := m.L.cfg
	switch {
	case cfg.Feegranter == "":
		return mustFail, "no-fee-granter"
	case len(cfg.Funders) == 0:
		return mustFail, "no-funders"
	}
	a, err := sdk.AccAddressFromBech32(e.Client)
	if err != nil {
		return mustFail, "invalid-address"
	}
	e.canon = a.String()
	switch {
	case st.Acct[e.canon].Exists:
		return mustFail, "address-has-account"
	case lic[e.canon]:
		return mustFail, "address-has-licence"
	case m.isModuleAddr(e.canon):
		return either, "module-address-without-account"
	case e.Amount.Sign() < 0:
		return mustFail, "negative-amount"
	case e.price().BitLen() > 256:
		return mustFail, "amount-overflows-256-bits"
	}
	price := e.price()
	funded, allSpendable := false, true
	for _, f := range cfg.Funders {
		if st.Bal[f].AmountOf(chain.Denom).BigInt().Cmp(price) >= 0 {
			funded = true
			if st.Acct[f].Type != "base" {
				allSpendable = false // a vesting funder: the coins may be locked
			}
		}
	}
	switch {
	case !funded:
		return mustFail, "no-funded-funder"
	case e.Amount.Sign() == 0:
		return either, "zero-amount"
	case !allSpendable || earlierAccepted:
		return either, "funder-situation-open"
	}
	return shouldSucceed, ""
}

func (m *mon) pickSaleClient() (string, string) {
	r := m.r
	switch x := r.Intn(100); {
	case x < 62:
		return m.pool[r.Intn(len(m.pool))].Bech, "pool"
	case x < 68:
		return strings.ToUpper(m.pool[r.Intn(len(m.pool))].Bech), "upper-case"
	case x < 76:
		opts := []string{m.w.Users[r.Intn(len(m.w.Users))].Bech, m.w.Vals[r.Intn(len(m.w.Vals))].Bech, chain.ModuleAddr("paloma").String()}
		return opts[r.Intn(len(opts))], "existing-account"
	case x < 83:
		opts := []string{"", "paloma1invalid", "0x00000000000000000000000000000000000000aa"}
		return opts[r.Intn(len(opts))], "invalid"
	default:
		m.fresh++
		a := chain.NewAccount(fmt.Sprintf("fresh%d", m.fresh), fmt.Sprintf("%s/fresh/%d", m.w.Users[0].Bech, m.fresh))
		m.byAddr[a.Bech] = a
		return a.Bech, "fresh"
	}
}

func (m *mon) pickSaleAmount() (*big.Int, string) {
	r := m.r
	// pinned to a funder candidate's balance: exact, one GRAIN more, one less
	if x := r.Intn(100); x < 40 {
		f := m.funderC[r.Intn(len(m.funderC))]
		bal := m.last.Bal[f.Bech].AmountOf(chain.Denom).BigInt()
		k := new(big.Int).Quo(bal, million)
		switch r.Intn(3) {
		case 0:
			return k, "funder-balance-floor" // price <= balance, as close as a whole GRAIN gets
		case 1:
			return new(big.Int).Add(k, big.NewInt(1)), "funder-balance-floor+1" // just not covered
		default:
			if k.Sign() > 0 {
				return new(big.Int).Sub(k, big.NewInt(1)), "funder-balance-floor-1"
			}
		}
	} else if x < 44 {
		return new(big.Int), "zero"
	} else if x < 48 {
		return new(big.Int).Lsh(big.NewInt(1), 200), "huge"
	}
	return big.NewInt(1 + r.Int63n(1500)), "random"
}

func (m *mon) newSaleEvents() []*saleEv {
	r := m.r
	ch := m.w.Chains[r.Intn(len(m.w.Chains))]
	n := 1
	if r.Intn(4) == 0 {
		n = 2
	}
	last := m.lastObserved(ch)
	var evs []*saleEv
	for i := 0; i < n; i++ {
		client, form := m.pickSaleClient()
		if i == 1 && r.Intn(2) == 0 {
			client, form = evs[0].Client, evs[0].Form+"-again" // the same buyer twice in one block
		}
		amt, kind := m.pickSaleAmount()
		if i == 1 && amt.Cmp(evs[0].Amount) == 0 && client == evs[0].Client {
			amt = new(big.Int).Add(amt, big.NewInt(1))
		}
		contract := m.contracts[0]
		if cc, ok := m.L.cfg.Contracts[ch]; ok {
			contract = cc
		}
		switch x := r.Intn(100); {
		case x < 8:
			contract = m.contracts[r.Intn(len(m.contracts))] // possibly the other one
		case x < 14:
			contract = "0x00000000000000000000000000000000000bad01"
		case x < 20:
			contract = strings.ToLower(contract) // the same contract, spelled without checksum case
		case x < 32:
			// the contract that is authorised on ANOTHER chain
			for _, other := range m.w.Chains {
				if oc, ok := m.L.cfg.Contracts[other]; ok && other != ch && oc != contract {
					contract = oc
				}
			}
		}
		ckind := ""
		if r.Intn(100) < 10 {
			// a boundary value of the address field (empty, zero, blank, case / prefix variants ...)
			bs := m.contractBoundaries(ch)
			b := bs[r.Intn(len(bs))]
			contract, ckind = b.Value, b.Kind
		}
		m.ethH += uint64(1 + r.Intn(5))
		evs = append(evs, &saleEv{Chain: ch, Nonce: last + 1 + uint64(i), EthH: m.ethH, Client: client, Form: form, Amount: amt, AmtKind: kind, Contract: contract, CKind: ckind})
	}
	return evs
}

// submit queues the claims of the given validators for all events and runs the block.
func (m *mon) submit(evs []*saleEv, voters []*chain.Account) *chain.BlockResult {
	for _, v := range voters {
		for i, e := range evs {
			compass := m.w.Compass[e.Chain]
			if e.compass != "" {
				compass = e.compass
			}
			msg := world.MsgSaleClaim(v, e.Chain, compass, e.Nonce, e.EthH, e.Client, sdkmath.NewIntFromBigInt(e.Amount), e.Contract)
			if err := m.c.QueueTx(v, uint64(i), msg); err != nil {
				m.rec.Inconclusive("cannot sign claim: " + err.Error())
				m.dead = true
				return nil
			}
		}
	}
	return m.c.NextBlock()
}

func (m *mon) claimsOK(br *chain.BlockResult) bool {
	if br == nil {
		return false
	}
	if br.Panic != "" && m.panicExcused {
		// an observation outside this property (begin/end-block must not abort: C09); the chain is dead
		m.rec.Count("sale_finalizeblock_panics_module_address_buyer", 1)
		m.rec.Sample(map[string]any{"observation": "FinalizeBlock panicked on an attested sale whose buyer is a module address that has no account yet (chain halt; outside C18, see C09)", "panic": trunc(br.Panic)})
		m.dead = true
		return false
	}
	if br.Panic != "" || br.Err != nil {
		m.rec.Inconclusive(fmt.Sprintf("claim block failed: %s %v", trunc(br.Panic), br.Err))
		m.dead = true
		return false
	}
	for i, tr := range br.Txs {
		if !tr.OK() {
			m.rec.Inconclusive(fmt.Sprintf("claim tx %d rejected: %s", i, trunc(tr.Log)))
			m.dead = true
			return false
		}
	}
	return true
}

func (m *mon) opSale() { m.runSale(m.newSaleEvents(), true) }

// runSale: every validator reports the given events (one block, or a minority first), the
// attestations are tallied, the outcome is evaluated against the statement.
func (m *mon) runSale(evs []*saleEv, minorityVariant bool) {
	r := m.r
	for _, e := range evs {
		if a, err := sdk.AccAddressFromBech32(e.Client); err == nil {
			e.canon = a.String()
			m.track(e.canon)
		}
	}
	pre := m.last
	m.panicExcused = false
	for _, e := range evs {
		if m.isModuleAddr(e.canon) && !pre.Acct[e.canon].Exists {
			m.panicExcused = true
		}
	}
	preDump := m.dumpSaleStores()
	voters := append([]*chain.Account{}, m.w.Vals...)
	r.Shuffle(len(voters), func(i, j int) { voters[i], voters[j] = voters[j], voters[i] })
	op := m.logOp(map[string]any{"op": "sale-claims", "events": evs})

	// sometimes a minority (<= 66 % of the power) reports first: nothing may happen yet
	if minorityVariant && r.Intn(5) == 0 {
		var first, rest []*chain.Account
		cum := int64(0)
		for _, v := range voters {
			if (cum+m.power[v.Bech])*100 <= 66*m.totalPow {
				first = append(first, v)
				cum += m.power[v.Bech]
			} else {
				rest = append(rest, v)
			}
		}
		if len(first) > 0 {
			op["minority_first"] = fmt.Sprintf("%d of %d power", cum, m.totalPow)
			if !m.claimsOK(m.submit(evs, first)) {
				return
			}
			m.rec.Count("sale_minority_blocks", 1)
			if ch := m.storeChanges(preDump, m.dumpSaleStores()); len(ch) > 0 {
				m.vio("sale/minority-claims-changed-state", fmt.Sprintf("claims by %d/%d of the power changed %v", cum, m.totalPow, ch), op, nil, strings.Join(ch, " "))
				return
			}
			m.settle("sale-minority", "pending", pre.clone(), op)
			if m.dead {
				return
			}
			voters = rest
		}
	}
	if !m.claimsOK(m.submit(evs, voters)) {
		return
	}
	for _, e := range evs {
		if m.lastObserved(e.Chain) < e.Nonce {
			// a panic in an earlier event's handler (caught by the end-blocker's recover) ends the tally of
			// that block; the remaining events are tallied in the next one
			m.rec.Count("sale_tally_continued_next_block", 1)
			if br := m.c.NextBlock(); br.Panic != "" || br.Err != nil {
				m.rec.Inconclusive("block failed")
				m.dead = true
				return
			}
		}
		if got := m.lastObserved(e.Chain); got < e.Nonce {
			m.rec.Inconclusive(fmt.Sprintf("sale event %d on %s was not attested (last observed %d)", e.Nonce, e.Chain, got))
			m.dead = true
			return
		}
	}
	m.evaluateSale(evs, pre, preDump, op)
}

// evaluateSale: attribute the new licences to the events (in nonce order), compare with the
// class the statement gives each event, predict the complete state and diff.
func (m *mon) evaluateSale(evs []*saleEv, pre *obs, preDump map[string]map[string]string, op map[string]any) {
	post := m.observe()
	run := pre.clone()
	lic := map[string]bool{}
	for k := range m.L.lic {
		lic[k] = true
	}
	want := pre.clone()
	anyAccepted := false
	var accepted []*saleEv
	for _, e := range evs {
		e.Class, e.Why = m.classifySale(e, run, lic, anyAccepted)
		// did THIS event create a licence? a record for its buyer with its price that was not there
		lv, now := post.Lic[e.Client]
		_, before := run.Lic[e.Client]
		representable := e.Amount.Sign() >= 0 && e.price().BitLen() <= 256
		if representable {
			e.Accepted = now && !before && lv.Amount == e.price().String()+chain.Denom
		} else if now && !before {
			m.vio("sale/licence-created-for-unrepresentable-amount", fmt.Sprintf("attested sale %s#%d with amount %s GRAIN created licence %s", e.Chain, e.Nonce, e.Amount, lv), op, nil, "")
			return
		}
		m.rec.Count("sale_events", 1)
		m.rec.Count("sale_events_"+e.Class, 1)
		m.countAuthz(e)
		if e.Accepted {
			anyAccepted = true
			accepted = append(accepted, e)
			m.rec.Count("licence_sale_accepted", 1)
			m.rec.Count("licence_sale_accepted_"+e.AmtKind, 1)
			if e.Class == mustFail {
				m.vio("sale/licence-created-despite-"+e.Why, fmt.Sprintf("attested sale %s#%d for %q (%s GRAIN, contract %s) created a licence although: %s", e.Chain, e.Nonce, e.Client, e.Amount, e.Contract, e.Why), op, nil, "")
			}
			priceCoin := sdk.NewCoin(chain.Denom, sdkmath.NewIntFromBigInt(e.price()))
			months := lv.Months // the period is whatever the chain wrote into the licence; activation must honour it
			want.Lic[e.Client] = licView{Addr: e.Client, Amount: priceCoin.String(), Months: months}
			run.Lic[e.Client] = want.Lic[e.Client]
			want.Escrow = want.Escrow.Add(priceCoin)
			if e.canon != "" {
				if !want.Acct[e.canon].Exists {
					want.Acct[e.canon] = acctView{Exists: true, Type: "base"}
					want.NAcc++
				}
				run.Acct[e.canon] = want.Acct[e.canon]
				lic[e.canon] = true
				want.Grants[m.L.cfg.Feegranter+">"+e.canon] = true
				m.L.lic[e.canon] = &licence{Key: e.Client, Addr: e.canon, Amount: priceCoin, Months: months, Origin: "sale"}
				if e.Client != e.canon {
					m.rec.Count("licences_under_non_canonical_key", 1)
				}
			}
		} else {
			m.rec.Count("sale_rejected", 1)
			if e.Class == mustFail {
				m.rec.Count("sale_rejected_"+e.Why, 1)
			}
			if e.Class == shouldSucceed {
				m.unexpectedReject(map[string]any{"sale": e}, "attested sale had no effect")
			}
		}
		m.distinct("sale", e.Class+":"+e.Why, ok(e.Accepted), e.Form+"|"+e.AmtKind+"|"+e.CKind)
	}
	op["events"] = evs
	if m.dead {
		return
	}
	// who paid: some assignment of the accepted sales to configured funders whose balance covered the
	// price at that moment must explain the funders' balances exactly
	if len(accepted) > 0 {
		if !m.assignFunders(accepted, pre, post, want) {
			m.vio("sale/accepted:funder-debits", "no assignment of the accepted sales to configured, sufficiently funded funders explains the funders' balances", op, diffObs(want, post), "")
			return
		}
	}
	if m.dead {
		return
	}
	if len(accepted) == 0 {
		// nothing may have changed, anywhere: raw store comparison (licences, accounts, balances, grants)
		m.rec.Eval(int64(len(saleStores)))
		if ch := m.storeChanges(preDump, m.dumpSaleStores()); len(ch) > 0 {
			why := evs[0].Why
			m.vio("sale/rejected-but-state-changed("+storesOf(ch)+")", fmt.Sprintf("attested sale(s) without effect (%s) changed store keys %v", why, ch), op, nil, strings.Join(ch, " "))
			return
		}
		m.rec.Count("sale_rejected_nothing_changed", 1)
	}
	m.settle("sale", ok(len(accepted) > 0), want, op)
}

func storesOf(ch []string) string {
	seen := map[string]bool{}
	for _, c := range ch {
		seen[strings.SplitN(c, ":", 2)[0]] = true
	}
	return strings.Join(sortedKeys(seen), "+")
}

// assignFunders tries every assignment accepted sale -> configured funder; on success want.Bal
// carries the debits.
func (m *mon) assignFunders(acc []*saleEv, pre, post, want *obs) bool {
	funders := m.L.cfg.Funders
	if len(funders) == 0 {
		return false
	}
	idx := make([]int, len(acc))
	for {
		trial := map[string]sdk.Coins{}
		for _, f := range funders {
			trial[f] = pre.Bal[f]
		}
		valid := true
		for i, e := range acc {
			f := funders[idx[i]]
			res, neg := trial[f].SafeSub(sdk.NewCoin(chain.Denom, sdkmath.NewIntFromBigInt(e.price())))
			if neg {
				valid = false
				break
			}
			trial[f] = res
		}
		if valid {
			match := true
			for _, f := range funders {
				if !trial[f].Equal(post.Bal[f]) {
					match = false
				}
			}
			if match {
				for _, f := range funders {
					want.Bal[f] = trial[f]
				}
				return true
			}
		}
		// next assignment
		k := 0
		for k < len(idx) {
			idx[k]++
			if idx[k] < len(funders) {
				break
			}
			idx[k] = 0
			k++
		}
		if k == len(idx) {
			return false
		}
	}
}

// opHostileSale ends a history: a fully configured sale path receives an attested event whose
// amount is negative or does not fit 256 bits once converted to ugrain. Whatever the chain does,
// no licence may appear and nothing may move; a panic inside FinalizeBlock is recorded as an
// observation (it belongs to the begin/end-block property, not to this one).
func (m *mon) opHostileSale() {
	r := m.r
	ch := m.w.Chains[0]
	funders := []string{m.funderC[0].Bech}
	cs := map[string]string{ch: m.contracts[0]}
	for _, step := range []func() error{
		func() error { return m.govDirect(m.fundersContent(funders)) },
		func() error { return m.govDirect(m.feegranterContent(m.fgC[0].Bech)) },
		func() error { return m.govDirect(m.contractsContent(cs)) },
	} {
		if err := step(); err != nil {
			m.rec.Inconclusive("hostile tail set-up: " + err.Error())
			return
		}
	}
	m.L.cfg = config{Funders: funders, FundersSet: true, Feegranter: m.fgC[0].Bech, Contracts: cs}
	m.last = m.observe()
	amts := []*big.Int{big.NewInt(-1), big.NewInt(-1_000_000), new(big.Int).Lsh(big.NewInt(1), 240), new(big.Int).Sub(new(big.Int).Lsh(big.NewInt(1), 256), big.NewInt(1))}
	amt := amts[r.Intn(len(amts))]
	m.fresh++
	buyer := chain.NewAccount("hostile-buyer", fmt.Sprintf("%s/hostile/%d", m.bank.Bech, m.fresh))
	m.track(buyer.Bech)
	m.ethH++
	e := &saleEv{Chain: ch, Nonce: m.lastObserved(ch) + 1, EthH: m.ethH, Client: buyer.Bech, Form: "fresh", Amount: amt, AmtKind: "hostile", Contract: m.contracts[0]}
	pre := m.last
	preDump := m.dumpSaleStores()
	op := m.logOp(map[string]any{"op": "hostile-sale-claim", "events": []*saleEv{e}})
	m.rec.Count("hostile_sale_claims", 1)
	var br *chain.BlockResult
	func() {
		defer func() {
			if x := recover(); x != nil {
				m.rec.Count("hostile_sale_claim_not_encodable", 1)
			}
		}()
		br = m.submit([]*saleEv{e}, m.w.Vals)
	}()
	if br == nil {
		return
	}
	if br.Panic != "" {
		m.rec.Count("hostile_sale_finalizeblock_panics", 1)
		m.rec.Sample(map[string]any{"observation": "FinalizeBlock panicked on an attested sale claim with a hostile amount (chain halt; outside C18, see C09)", "amount_grain": amt.String(), "panic": trunc(br.Panic)})
		return
	}
	if br.Err != nil {
		m.rec.Count("hostile_sale_block_errors", 1)
		return
	}
	for _, tr := range br.Txs {
		if !tr.OK() {
			m.rec.Count("hostile_sale_claim_tx_rejected", 1)
			m.settle("hostile-sale", "claim-rejected", pre.clone(), op)
			return
		}
	}
	if got := m.lastObserved(ch); got < e.Nonce {
		// the handler panicked inside the skyway end-blocker's recover(): the event stays unobserved and
		// is retried (and panics) in every block - the chain's bridge cursor is stuck. Outside C18.
		m.rec.Count("hostile_sale_leaves_bridge_cursor_stuck", 1)
		m.rec.Sample(map[string]any{"observation": "an attested sale claim with a hostile amount is never marked observed: the skyway nonce of the chain stops advancing (outside C18; see C09/C02)", "amount_grain": amt.String(), "chain": ch, "nonce": e.Nonce})
	}
	m.evaluateSale([]*saleEv{e}, pre, preDump, op)
}
