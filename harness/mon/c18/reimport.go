package c18

import (
	"fmt"
	"math/big"

	sdk "github.com/cosmos/cosmos-sdk/types"
	palomamodule "github.com/palomachain/paloma/v2/x/paloma"
	palomatypes "github.com/palomachain/paloma/v2/x/paloma/types"

	"verif/harness/chain"
)

// opReimport: the paloma module's state goes through the chain's own genesis round trip
// (ExportGenesis -> JSON -> Validate -> InitGenesis, the path of a restart from an exported
// genesis) in place, between two blocks. Nothing the statement talks about may change by it:
// balances, accounts, licences, escrow and - what only later operations show - which parts of
// the sale configuration count as "configured".
func (m *mon) opReimport(where string) {
	op := m.logOp(map[string]any{"op": "genesis-round-trip", "where": where, "config": m.L.cfg.bits()})
	ctx := m.c.Ctx()
	var gs palomatypes.GenesisState
	failed := func() (msg string) {
		defer func() {
			if e := recover(); e != nil {
				msg = fmt.Sprint("panic: ", e)
			}
		}()
		exp := palomamodule.ExportGenesis(ctx, m.c.App.PalomaKeeper)
		bz, err := m.c.App.AppCodec().MarshalJSON(exp)
		if err != nil {
			return "marshal: " + err.Error()
		}
		if err := m.c.App.AppCodec().UnmarshalJSON(bz, &gs); err != nil {
			return "unmarshal: " + err.Error()
		}
		if err := gs.Validate(); err != nil {
			return "validate: " + err.Error()
		}
		op["genesis_bytes"] = len(bz)
		cctx, write := ctx.CacheContext()
		palomamodule.InitGenesis(cctx, m.c.App.PalomaKeeper, gs)
		write()
		return ""
	}()
	if failed != "" {
		// the round trip itself failing is not something the statement speaks about
		m.rec.Inconclusive("paloma genesis round trip: " + failed)
		m.dead = true
		return
	}
	op["result"] = "accepted"
	m.rec.Count("genesis_round_trips", 1)
	m.rec.Count("genesis_round_trips_config_"+m.L.cfg.bits(), 1)
	m.checkConfigReadback()
	m.settle("genesis-round-trip", "unchanged", m.last.clone(), op)
}

// reimportThenSales: right after a round trip, the sale path is completed EXCEPT for one part
// that has never been configured in this history, a funder is given money, and attested sales are
// reported: none may create a licence or change anything. Then the history goes on as usual.
func (m *mon) reimportThenSales() {
	m.opReimport("start")
	if m.dead {
		return
	}
	missing := []string{"fee-granter", "funders"}[m.r.Intn(2)]
	if m.L.cfg.Feegranter != "" && len(m.L.cfg.Funders) > 0 {
		return // a real governance round already configured everything
	}
	if missing != "fee-granter" && m.L.cfg.Feegranter == "" {
		fg := m.fgC[m.r.Intn(len(m.fgC))].Bech
		if m.govFail(m.govDirect(m.feegranterContent(fg))) {
			return
		}
		m.L.cfg.Feegranter = fg
	}
	if missing != "funders" && len(m.L.cfg.Funders) == 0 {
		if !m.setFunders([]string{m.funderC[0].Bech, m.funderC[1].Bech, m.funderC[2].Bech}) {
			return
		}
	}
	cs := map[string]string{}
	for i, ch := range m.w.Chains {
		cs[ch] = m.contracts[i%len(m.contracts)]
	}
	if !m.setContracts(cs) {
		return
	}
	// money where a funder would be
	f := m.funderC[m.r.Intn(len(m.funderC))]
	top := m.logOp(map[string]any{"op": "funder-top-up", "funder": f.Bech, "for": "sale-after-round-trip"})
	m.send("funder-move", m.bank, f.Bech, sdk.NewInt64Coin(chain.Denom, 500_000_000), top, shouldSucceed)
	if m.dead {
		return
	}
	m.checkConfigReadback()
	for i := 0; i < 2 && !m.dead; i++ {
		ch := m.w.Chains[m.r.Intn(len(m.w.Chains))]
		m.ethH += 3
		e := &saleEv{Chain: ch, Nonce: m.lastObserved(ch) + 1, EthH: m.ethH, Client: m.freshBuyer(), Form: "fresh", Amount: big.NewInt(int64(1 + m.r.Intn(50))), AmtKind: "small", Contract: cs[ch]}
		m.runSale([]*saleEv{e}, false)
		m.rec.Count("sales_after_round_trip_with_"+missing+"_never_configured", 1)
	}
}
