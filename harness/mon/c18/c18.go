// Package c18: light-node licence escrow.
//
// Coins paid for light-node licences sit in the paloma module account 1:1 with the not yet
// activated licences; a licence is created only for an address without account and licence, is
// activated at most once and only by the licensed address, and activation pays exactly the
// licensed amount into a continuously vesting balance (linear from activation over the licence's
// months); an attested sale creates a licence only with funders, fee granter and an authorised
// sale contract configured, and otherwise changes nothing.
//
// The REAL app runs histories of direct licences (signed txs through ante), attested sales
// (every validator's MsgLightNodeSaleClaim -> attestation -> handler), activations by the
// licensee / impostors / twice, authentications, governance reconfiguration, funder balance
// moves, gifts, licensee spending and time travel. A reference ledger (model.go) predicts the
// complete observable state after every operation; the monitor diffs it against the chain.
package c18

import (
	"fmt"
	"math/rand"

	"verif/harness/fw"
)

type params struct {
	Stakes   []int64 `json:"stakes"`
	NChains  int     `json:"chains"`
	Steps    int     `json:"steps"`
	Profile  string  `json:"profile"`  // mixed | sale | direct | churn
	GovReal  bool    `json:"gov_real"` // first configuration through a real governance round
	Hostile  bool    `json:"hostile"`  // end the history with a sale claim carrying a hostile amount
	Reimport bool    `json:"reimport"` // start with a genesis round trip of the module, then sales with one part never configured
}

func init() {
	fw.Register(&fw.Prop{
		ID:    "C18",
		Level: "exploration",
		Rule: "One case = one history on the real app (3-5 validators, 6 users, 1-2 EVM chains with the bridge active, a pool of 10 licensee keys, 2 denoms). " +
			"A history is a seeded biased random walk over: direct licence tx (hostile addresses/amounts/months), attested sale block (1-2 claims, all validators or minority-then-rest; " +
			"amounts pinned to funder balances +-1), activation (licensee / impostor / no licence / again), auth, legacy import, governance set funders/fee granter/sale contracts " +
			"(incl. removal), funder balance moves, gifts, licensee spending, time travel (hours..years) and vesting probes; half-way every history runs one scripted authorisation sweep " +
			"(everything but the sale contract in place; the claim's chain has no contract registered anywhere / only other chain references have / has one; one attested sale per boundary value " +
			"of the contract-address field - empty, blank, 0x, zero address, case/prefix/padding variants, near misses, other chains' contract - plus an unknown chain reference, then the exact address as positive control). Every fourth history starts with the module's own genesis round trip (ExportGenesis -> JSON -> Validate -> InitGenesis in place, as after a restart from an exported genesis) followed by attested sales with funders or fee granter never configured; the round trip is also a rare step of the walk. 'evaluations' counts field comparisons of the predicted " +
			"against the observed state plus invariant and vesting-probe checks. A distinct non-trivial case = (operation kind, predicted class, outcome, configuration bits, " +
			"#open licences, #activated, funder-balance situation) seen with at least one licence or a configured sale path.",
		Assumptions: []string{
			"the paloma module account receives no outside gifts in the workload (it is a blocked address for bank sends), so escrow must EQUAL the open licences",
			"'N months after activation' is read as the same day-of-month N calendar months later (UTC); when that day does not exist both roll-over and clamp-to-month-end are accepted",
			"a linear unlock may be rounded to the unit and computed with 18-digit fixed-point fractions: tolerance 2 units + amount/1e18",
			"an activation whose tx is signed by an account holding a fee allowance FROM the licensee counts as the licensee acting (Paloma's delegation rule, property C03); the workload creates no such allowances",
			"which configured funder pays for a sale is not fixed by the statement: any configured funder whose balance covered the price is accepted",
		},
		Cases: cases,
		Run:   run,
		MinCounters: []string{"licence_direct_accepted", "licence_sale_accepted", "activation_accepted", "activation_again_rejected", "activation_impostor_rejected", "sale_rejected_nothing_changed", "vesting_probes", "escrow_checks",
			"sale_contract_only_obstacle_empty_unconfigured_chain", "sale_contract_only_obstacle_empty_configured_chain", "sale_contract_only_obstacle_zero-address_unconfigured_chain",
			"sale_contract_only_obstacle_unknown_chain_reference", "authz_sweep_controls_accepted",
			"genesis_round_trips", "sales_after_round_trip_with_fee-granter_never_configured", "sales_after_round_trip_with_funders_never_configured"},
		Workers:  12,
		TimeoutS: 600,
	})
}

func cases(tier string, seed int64) []fw.Case {
	r := rand.New(rand.NewSource(seed*7919 + 18))
	n, steps := 120, 120
	if tier == "thorough" {
		n, steps = 400, 170
	}
	profiles := []string{"mixed", "sale", "direct", "churn", "mixed"}
	stakes := [][]int64{{40e6, 30e6, 20e6, 10e6}, {25e6, 25e6, 25e6, 25e6}, {50e6, 20e6, 15e6, 10e6, 5e6}, {34e6, 33e6, 33e6}}
	var out []fw.Case
	for i := 0; i < n; i++ {
		p := params{
			Stakes:   stakes[r.Intn(len(stakes))],
			NChains:  1 + r.Intn(2),
			Steps:    steps + r.Intn(steps/2),
			Profile:  profiles[i%len(profiles)],
			GovReal:  i%5 == 1,
			Hostile:  i%6 == 2,
			Reimport: i%4 == 3,
		}
		out = append(out, fw.MkCase(fmt.Sprintf("h%03d-%s", i, p.Profile), r.Int63(), p))
	}
	return out
}
