package c18

import (
	"fmt"
	"math/big"
	"sort"
	"strings"

	sdkmath "cosmossdk.io/math"
	sdk "github.com/cosmos/cosmos-sdk/types"

	"verif/harness/chain"
)

// ---------------------------------------------------------------------------------------------
// "only if ... an authorised sale contract [is] configured": boundary values of the claim fields
// that take part in that decision (the reporting contract's address, the chain reference), on
// chains WITH and WITHOUT a registered sale contract, while everything else a sale needs (fee
// granter, funders, a funded funder, a fresh buyer, a small amount) is in place - so that the
// contract check is the only thing between the claim and a licence.

// normContract: the address a spelling stands for (blanks, 0x prefix and letter case set aside).
func normContract(s string) string {
	s = strings.ToLower(strings.TrimSpace(s))
	return strings.TrimPrefix(s, "0x")
}

// classifyContract: what the statement says about the reporting contract of this event.
func (m *mon) classifyContract(e *saleEv) (string, string) {
	contract, has := m.L.cfg.Contracts[e.Chain]
	switch {
	case !has:
		return mustFail, "no-sale-contract"
	case normContract(contract) == "":
		return either, "registered-contract-is-no-address" // never configured by this workload
	case normContract(contract) != normContract(e.Contract):
		return mustFail, "wrong-sale-contract"
	case contract != e.Contract:
		return either, "contract-spelled-differently"
	}
	return shouldSucceed, ""
}

type boundary struct{ Kind, Value string }

const zeroAddress = "0x0000000000000000000000000000000000000000"

// contractBoundaries: boundary values of the contract-address field for a claim from chain ch in
// the CURRENT configuration: empty / blank / zero-value strings always; spellings and near misses
// of the registered contract where one is registered; the candidates and what other chains have
// registered where none is.
func (m *mon) contractBoundaries(ch string) []boundary {
	out := []boundary{{"empty", ""}, {"blank", " "}, {"bare-prefix", "0x"}, {"zero-address", zeroAddress}}
	cc, has := m.L.cfg.Contracts[ch]
	other := ""
	var refs []string
	for k := range m.L.cfg.Contracts {
		refs = append(refs, k)
	}
	sort.Strings(refs)
	for _, k := range refs {
		if k != ch && m.L.cfg.Contracts[k] != cc {
			other = m.L.cfg.Contracts[k]
		}
	}
	if has && len(cc) > 3 {
		out = append(out,
			boundary{"upper-case", strings.ToUpper(cc)},
			boundary{"lower-case", strings.ToLower(cc)},
			boundary{"no-prefix", cc[2:]},
			boundary{"padded", cc + " "},
			boundary{"truncated", cc[:len(cc)-1]},
			boundary{"extended", cc + "00"})
	} else {
		out = append(out,
			boundary{"candidate", m.contracts[0]},
			boundary{"candidate-lower-case", strings.ToLower(m.contracts[1])})
	}
	if other != "" {
		out = append(out, boundary{"other-chains-contract", other})
	}
	return out
}

// countAuthz: how often the contract check was the ONLY obstacle (by the ledger's reckoning), per
// kind of address and per situation of the claim's chain.
func (m *mon) countAuthz(e *saleEv) {
	if e.Class != mustFail || !e.Viable {
		return
	}
	where := ""
	switch e.Why {
	case "no-sale-contract":
		where = "unconfigured_chain"
	case "wrong-sale-contract":
		where = "configured_chain"
	default:
		return
	}
	m.rec.Count("sale_contract_only_obstacle_"+where, 1)
	if e.CKind != "" {
		m.rec.Count("sale_contract_only_obstacle_"+e.CKind+"_"+where, 1)
	}
	if e.Phantom {
		m.rec.Count("sale_contract_only_obstacle_unknown_chain_reference", 1)
	}
}

func (m *mon) freshBuyer() string {
	m.fresh++
	a := chain.NewAccount(fmt.Sprintf("fresh%d", m.fresh), fmt.Sprintf("%s/fresh/%d", m.w.Users[0].Bech, m.fresh))
	m.byAddr[a.Bech] = a
	return a.Bech
}

func sameList(a, b []string) bool { return strings.Join(a, ",") == strings.Join(b, ",") }

func copyMap(in map[string]string) map[string]string {
	out := map[string]string{}
	for k, v := range in {
		out[k] = v
	}
	return out
}

func (m *mon) govFail(err error) bool {
	if err != nil {
		m.rec.Inconclusive("gov: " + err.Error())
		m.dead = true
		return true
	}
	return false
}

func (m *mon) setContracts(cs map[string]string) bool {
	if fmt.Sprint(cs) == fmt.Sprint(m.L.cfg.Contracts) {
		return true
	}
	if m.govFail(m.govDirect(m.contractsContent(cs))) {
		return false
	}
	m.L.cfg.Contracts = cs
	m.rec.Count("gov_config_changes", 1)
	return true
}

func (m *mon) setFunders(list []string) bool {
	if sameList(list, m.L.cfg.Funders) {
		return true
	}
	if m.govFail(m.govDirect(m.fundersContent(list))) {
		return false
	}
	m.L.cfg.Funders, m.L.cfg.FundersSet = list, true
	for _, f := range list {
		m.track(f)
	}
	m.rec.Count("gov_config_changes", 1)
	return true
}

// ensureSaleViable: fee granter set, the three plain funder candidates are the funders, one of
// them holds at least needGrain GRAIN. Returns false when the history cannot go on.
func (m *mon) ensureSaleViable(needGrain int64) bool {
	if m.L.cfg.Feegranter == "" {
		fg := m.fgC[m.r.Intn(len(m.fgC))].Bech
		if m.govFail(m.govDirect(m.feegranterContent(fg))) {
			return false
		}
		m.L.cfg.Feegranter = fg
		m.rec.Count("gov_config_changes", 1)
	}
	if !m.setFunders([]string{m.funderC[0].Bech, m.funderC[1].Bech, m.funderC[2].Bech}) {
		return false
	}
	need := sdkmath.NewInt(needGrain * 1_000_000)
	for _, f := range m.funderC {
		if m.last.Bal[f.Bech].AmountOf(chain.Denom).GTE(need) {
			return true
		}
	}
	f := m.funderC[m.r.Intn(len(m.funderC))]
	diff := need.Sub(m.last.Bal[f.Bech].AmountOf(chain.Denom))
	op := m.logOp(map[string]any{"op": "funder-top-up", "funder": f.Bech, "to_balance": need.String(), "for": "authz-sweep"})
	if !m.send("funder-move", m.bank, f.Bech, sdk.NewCoin(chain.Denom, diff), op, shouldSucceed) {
		m.rec.Count("authz_sweeps_without_funded_funder", 1)
	}
	return !m.dead
}

// opAuthzSweep: with everything else in place, the claim's chain is given one of three
// situations (no sale contract registered anywhere / only for OTHER chain references / registered),
// then one attested sale per boundary value of the contract address is reported (fresh buyer, 1-5
// GRAIN), then the same with a chain reference the bridge does not know, and last - with the
// contract registered - the exact address as the positive control: only that one may create a
// licence. The configuration found before the sweep is put back afterwards.
func (m *mon) opAuthzSweep(shape string) {
	r := m.r
	ch := m.w.Chains[r.Intn(len(m.w.Chains))]
	savedContracts, savedFunders, savedSet := copyMap(m.L.cfg.Contracts), append([]string(nil), m.L.cfg.Funders...), m.L.cfg.FundersSet
	op := m.logOp(map[string]any{"op": "authz-sweep", "shape": shape, "chain": ch})
	m.rec.Count("authz_sweeps", 1)
	m.rec.Count("authz_sweeps_"+shape, 1)
	if !m.ensureSaleViable(100) {
		return
	}
	registered := map[string]string{}
	for i, c := range m.w.Chains {
		registered[c] = m.contracts[i%len(m.contracts)]
	}
	if cc, has := savedContracts[ch]; has {
		registered[ch] = cc
	}
	cs := map[string]string{}
	switch shape {
	case "none-registered":
	case "only-other-chains":
		for _, c := range m.w.Chains {
			if c != ch {
				cs[c] = registered[c]
			}
		}
		cs["gnosis-main"] = m.contracts[r.Intn(len(m.contracts))] // a chain reference the bridge does not serve
		if r.Intn(2) == 0 {
			cs[strings.ToUpper(ch)] = registered[ch] // the claim's chain, spelled differently: another reference
		}
	default:
		cs = copyMap(registered)
	}
	if !m.setContracts(cs) {
		return
	}
	m.checkConfigReadback()
	op["contracts"] = cs

	mk := func(chainRef string, nonce uint64, b boundary) *saleEv {
		m.ethH += uint64(1 + r.Intn(5))
		return &saleEv{Chain: chainRef, Nonce: nonce, EthH: m.ethH, Client: m.freshBuyer(), Form: "fresh", Amount: big.NewInt(1 + r.Int63n(5)), AmtKind: "small",
			Contract: b.Value, CKind: b.Kind}
	}
	// (1) the boundary values on the real chain, up to four events per block
	bs := m.contractBoundaries(ch)
	r.Shuffle(len(bs), func(i, j int) { bs[i], bs[j] = bs[j], bs[i] })
	for len(bs) > 0 && !m.dead {
		n := 4
		if len(bs) < n {
			n = len(bs)
		}
		last := m.lastObserved(ch)
		var evs []*saleEv
		for i, b := range bs[:n] {
			evs = append(evs, mk(ch, last+1+uint64(i), b))
		}
		bs = bs[n:]
		m.runSale(evs, false)
	}
	if m.dead {
		return
	}
	// (2) a chain reference that differs from the served chain's only in the case of its first
	// letter: nothing is registered under it and the bridge serves no such chain
	ref := strings.ToUpper(ch[:1]) + ch[1:]
	pb := []boundary{{"empty", ""}, {"candidate", registered[ch]}}
	var pevs []*saleEv
	for i, b := range pb {
		e := mk(ref, m.phantomNonce[ref]+1+uint64(i), b)
		e.Phantom, e.compass = true, m.w.Compass[ch]
		pevs = append(pevs, e)
	}
	m.runPhantomSale(pevs)
	if m.dead {
		return
	}
	// (3) positive control: contract registered, exact address
	if !m.setContracts(registered) {
		return
	}
	ctl := mk(ch, m.lastObserved(ch)+1, boundary{"exact", registered[ch]})
	m.runSale([]*saleEv{ctl}, false)
	if m.dead {
		return
	}
	if ctl.Accepted {
		m.rec.Count("authz_sweep_controls_accepted", 1)
	}
	// (4) back to the configuration the random walk had reached
	if !m.setContracts(savedContracts) {
		return
	}
	if !m.setFunders(savedFunders) {
		return
	}
	m.L.cfg.FundersSet = savedSet || m.L.cfg.FundersSet
	m.checkConfigReadback()
	m.settle("gov-config", "accepted", m.last.clone(), op)
}

// runPhantomSale: claims naming a chain reference the bridge does not serve. Whether the chain
// takes such claims at all is not this property's business; a licence must not come of them
// (no sale contract is authorised for a chain that does not exist) and nothing may move.
func (m *mon) runPhantomSale(evs []*saleEv) {
	for _, e := range evs {
		if a, err := sdk.AccAddressFromBech32(e.Client); err == nil {
			e.canon = a.String()
			m.track(e.canon)
		}
	}
	pre := m.last
	preDump := m.dumpSaleStores()
	op := m.logOp(map[string]any{"op": "sale-claims-unknown-chain-reference", "events": evs})
	br := m.submit(evs, m.w.Vals)
	if br == nil {
		return
	}
	if br.Panic != "" || br.Err != nil {
		m.rec.Inconclusive(fmt.Sprintf("claim block failed: %s %v", trunc(br.Panic), br.Err))
		m.dead = true
		return
	}
	for _, tr := range br.Txs {
		if !tr.OK() {
			m.rec.Count("sale_claims_unknown_chain_reference_refused", 1)
			op["result"] = "claims refused"
			m.settle("sale-unknown-chain", "claim-rejected", pre.clone(), op)
			return
		}
	}
	m.phantomNonce[evs[0].Chain] += uint64(len(evs))
	m.rec.Count("sale_claims_unknown_chain_reference_taken", 1)
	m.evaluateSale(evs, pre, preDump, op)
}
