package c08

import (
	"context"
	"fmt"
	"os"
	"path/filepath"
	"regexp"
	"sort"
	"strings"
	"sync"
	"sync/atomic"

	abci "github.com/cometbft/cometbft/abci/types"
	gogoproto "github.com/cosmos/gogoproto/proto"
	consensustypes "github.com/palomachain/paloma/v2/x/consensus/types"
	evmtypes "github.com/palomachain/paloma/v2/x/evm/types"
	skywaytypes "github.com/palomachain/paloma/v2/x/skyway/types"
	treasurytypes "github.com/palomachain/paloma/v2/x/treasury/types"
	valsettypes "github.com/palomachain/paloma/v2/x/valset/types"

	"verif/harness/chain"
	"verif/harness/fw"
	"verif/harness/world"
)

// Secondary oracle (thorough tier only): the Go race detector over the twin that serves gRPC queries
// and simulations CONCURRENTLY with block execution - what a real node does: the gRPC server and the
// tx simulation endpoint run on their own goroutines against committed state while FinalizeBlock /
// Commit run on the consensus goroutine. Any memory Paloma code owns (keeper fields, package-level
// caches, the event bus) that is written on one side and touched on the other is an in-memory value
// surviving from a query into block execution (or vice versa), which C08 forbids; the race detector
// sees the access pair even when this particular run happened to give the same digests.

// every gRPC query method of the Paloma modules (proto/palomachain/paloma/*/query.proto); a path the
// working tree no longer serves simply returns an error and is counted as such.
var queryPaths = map[string][]string{
	"consensus":    {"Params", "QueuedMessagesForSigning", "QueuedMessagesForRelaying", "QueuedMessagesForGasEstimation", "QueuedMessagesForAttesting", "MessagesInQueue", "MessageByID", "GetAllQueueNames"},
	"evm":          {"Params", "GetValsetByID", "ChainsInfos", "QueryGetSmartContract", "QueryGetSmartContractDeployments", "QueryUserSmartContracts"},
	"metrix":       {"Params", "Validator", "Validators", "HistoricRelayData"},
	"paloma":       {"Params", "GetLightNodeClientLicenses", "GetLightNodeClientFeegranter", "GetLightNodeClientFunders", "GetLightNodeClients"},
	"scheduler":    {"Params", "QueryGetJobByID"},
	"skyway":       {"Params", "LastPendingBatchRequestByAddr", "LastObservedSkywayNonce", "LastObservedSkywayNonceByAddr", "LastObservedSkywayBlock", "OutgoingTxBatches", "BatchRequestByNonce", "BatchConfirms", "ERC20ToDenom", "DenomToERC20", "GetAttestations", "GetErc20ToDenoms", "GetPendingSendToRemote", "GetBridgeTaxes", "GetBridgeTransferLimits", "GetLightNodeSaleContracts", "LastPendingBatchForGasEstimation", "GetUnobservedBlocksByAddr"},
	"tokenfactory": {"Params", "DenomAuthorityMetadata", "DenomsFromCreator"},
	"treasury":     {"Params", "QueryFees", "RelayerFee", "RelayerFees"},
	"valset":       {"Params", "ValidatorInfo", "GetSnapshotByID", "GetLatestPublishedSnapshot", "GetValidatorAliveUntil", "GetValidatorJailReason", "GetAlivePigeons", "GetPigeonRequirements"},
}

type concurrentTraffic struct {
	stop    atomic.Bool
	wg      sync.WaitGroup
	ok, err atomic.Int64
	sims    atomic.Int64
	mu      sync.Mutex
	lastTxs [][]byte
}

type qreq struct {
	path string
	data []byte
}

func buildRequests(w *world.BridgeWorld) []qreq {
	var out []qreq
	mods := make([]string, 0, len(queryPaths))
	for m := range queryPaths {
		mods = append(mods, m)
	}
	sort.Strings(mods)
	for _, m := range mods {
		for _, meth := range queryPaths[m] {
			out = append(out, qreq{path: fmt.Sprintf("/palomachain.paloma.%s.Query/%s", m, meth)})
		}
	}
	add := func(mod, meth string, msg gogoproto.Message) {
		b, err := gogoproto.Marshal(msg)
		if err == nil {
			out = append(out, qreq{path: fmt.Sprintf("/palomachain.paloma.%s.Query/%s", mod, meth), data: b})
		}
	}
	for _, chn := range []string{"eth-main", "bnb-main", "arb-main"} {
		q := world.TurnstoneQueue(chn)
		for _, v := range w.Vals {
			add("consensus", "QueuedMessagesForSigning", &consensustypes.QueryQueuedMessagesForSigningRequest{ValAddress: v.ValAddr(), QueueTypeName: q})
			add("consensus", "QueuedMessagesForRelaying", &consensustypes.QueryQueuedMessagesForRelayingRequest{ValAddress: v.ValAddr(), QueueTypeName: q})
			add("consensus", "QueuedMessagesForAttesting", &consensustypes.QueryQueuedMessagesForAttestingRequest{ValAddress: v.ValAddr(), QueueTypeName: q})
			add("consensus", "QueuedMessagesForGasEstimation", &consensustypes.QueryQueuedMessagesForGasEstimationRequest{ValAddress: v.ValAddr(), QueueTypeName: q})
			add("skyway", "OutgoingTxBatches", &skywaytypes.QueryOutgoingTxBatchesRequest{ChainReferenceId: chn, Assignee: v.ValBech()})
			add("skyway", "LastPendingBatchRequestByAddr", &skywaytypes.QueryLastPendingBatchRequestByAddrRequest{Address: v.Bech})
		}
		add("consensus", "MessagesInQueue", &consensustypes.QueryMessagesInQueueRequest{QueueTypeName: q})
		add("skyway", "LastObservedSkywayNonce", &skywaytypes.QueryLastObservedSkywayNonceRequest{ChainReferenceId: chn})
		add("treasury", "RelayerFees", &treasurytypes.QueryRelayerFeesRequest{ChainReferenceId: chn})
		for id := uint64(1); id <= 3; id++ {
			add("evm", "GetValsetByID", &evmtypes.QueryGetValsetByIDRequest{ValsetID: id, ChainReferenceID: chn})
		}
	}
	for id := uint64(1); id <= 4; id++ {
		add("valset", "GetSnapshotByID", &valsettypes.QueryGetSnapshotByIDRequest{SnapshotId: id})
	}
	add("skyway", "GetAttestations", &skywaytypes.QueryAttestationsRequest{Limit: 50})
	return out
}

// start launches n goroutines that hammer the ABCI query surface (gRPC paths) and Simulate until stopped.
func (t *concurrentTraffic) start(w *world.BridgeWorld, n int) {
	reqs := buildRequests(w)
	app := w.C.App
	for g := 0; g < n; g++ {
		t.wg.Add(1)
		go func(g int) {
			defer t.wg.Done()
			i := g * 17
			for !t.stop.Load() {
				r := reqs[i%len(reqs)]
				i++
				func() {
					defer func() {
						if recover() != nil {
							t.err.Add(1)
						}
					}()
					res, err := app.Query(context.Background(), &abci.RequestQuery{Path: r.path, Data: r.data})
					if err == nil && res != nil && res.Code == 0 {
						t.ok.Add(1)
					} else {
						t.err.Add(1)
					}
				}()
				if i%40 == 0 {
					t.mu.Lock()
					txs := t.lastTxs
					t.mu.Unlock()
					for _, tx := range txs {
						func() {
							defer func() { recover() }()
							app.Simulate(tx)
							t.sims.Add(1)
						}()
					}
				}
			}
		}(g)
	}
}

func (t *concurrentTraffic) afterBlock(br *chain.BlockResult) {
	t.mu.Lock()
	t.lastTxs = br.RawTxs
	t.mu.Unlock()
}

func (t *concurrentTraffic) finish(rec *fw.Recorder) {
	t.stop.Store(true)
	t.wg.Wait()
	rec.Count("concurrent_queries_ok", t.ok.Load())
	rec.Count("concurrent_queries_err", t.err.Load())
	rec.Count("concurrent_simulations", t.sims.Load())
}

// ---------------------------------------------------------------------------------------------
// race report parsing (parent side)

var frameFn = regexp.MustCompile(`^  ([^\s].*)\(\)$`)

type raceReport struct {
	Text     string
	Accesses [][]string // function names per access stack (2 stacks: the two conflicting accesses)
}

func parseRaceLogs(glob string) []raceReport {
	files, _ := filepath.Glob(glob)
	sort.Strings(files)
	var out []raceReport
	for _, f := range files {
		b, err := os.ReadFile(f)
		if err != nil {
			continue
		}
		for _, blk := range strings.Split(string(b), "==================") {
			if !strings.Contains(blk, "WARNING: DATA RACE") {
				continue
			}
			rr := raceReport{Text: strings.TrimSpace(blk)}
			var cur []string
			inAccess := false
			flush := func() {
				if inAccess {
					rr.Accesses = append(rr.Accesses, cur)
				}
				cur, inAccess = nil, false
			}
			for _, ln := range strings.Split(blk, "\n") {
				switch {
				case strings.HasPrefix(ln, "Write at ") || strings.HasPrefix(ln, "Read at ") || strings.HasPrefix(ln, "Previous write at ") || strings.HasPrefix(ln, "Previous read at "):
					flush()
					inAccess = true
					cur = []string{strings.SplitN(ln, " at ", 2)[0]}
				case strings.HasPrefix(ln, "Goroutine "):
					flush()
				default:
					if m := frameFn.FindStringSubmatch(ln); m != nil && inAccess {
						cur = append(cur, m[1])
					}
				}
			}
			flush()
			out = append(out, rr)
		}
	}
	return out
}

const palomaPkg = "github.com/palomachain/paloma/v2/"

// owner: the innermost frame of an access that is not the Go runtime / standard library = the code
// whose memory access raced.
func owner(stack []string) string {
	for _, fn := range stack[1:] {
		if strings.Contains(fn, ".") && (strings.Contains(fn, "/") || strings.HasPrefix(fn, "main.")) && !strings.HasPrefix(fn, "runtime.") && !strings.HasPrefix(fn, "internal/") {
			first := strings.SplitN(fn, "/", 2)[0]
			if !strings.Contains(first, ".") && first != "verif" {
				continue // standard library package with a slash (e.g. encoding/json, sync/atomic)
			}
			return fn
		}
	}
	return ""
}

var lineNo = regexp.MustCompile(`:\d+`)

// judgeRaces: a report is a violation when the racing memory access on EITHER side is made by Paloma
// code itself; races inside the SDK / CometBFT / harness are listed in the evidence only.
func judgeRaces(reports []raceReport, twin string, rec *fw.Recorder) {
	seen := map[string]bool{}
	for _, rr := range reports {
		rec.Count("race_reports", 1)
		var owners []string
		paloma := false
		for _, a := range rr.Accesses {
			o := owner(a)
			owners = append(owners, a[0]+" "+o)
			if strings.HasPrefix(o, palomaPkg) {
				paloma = true
			}
		}
		sort.Strings(owners)
		key := lineNo.ReplaceAllString(strings.Join(owners, " ~ "), "")
		if seen[key] {
			continue
		}
		seen[key] = true
		rec.Distinct("race|" + key)
		if paloma {
			sig := "race/" + strings.ReplaceAll(key, palomaPkg, "")
			rec.Violation(sig, fmt.Sprintf("data race on memory accessed by Paloma code while queries/simulations run concurrently with block execution (twin %s): %s", twin, key),
				map[string]any{"twin": twin, "report": trunc(rr.Text)})
		} else {
			rec.Count("race_reports_foreign_distinct", 1)
			rec.Sample(map[string]any{"foreign_race_not_deciding": key})
		}
	}
}
