package c08

import (
	"encoding/json"
	"fmt"
	"math/rand"

	sdkmath "cosmossdk.io/math"
	codectypes "github.com/cosmos/cosmos-sdk/codec/types"
	sdk "github.com/cosmos/cosmos-sdk/types"
	govv1 "github.com/cosmos/cosmos-sdk/x/gov/types/v1"
	gogoproto "github.com/cosmos/gogoproto/proto"
	schedulertypes "github.com/palomachain/paloma/v2/x/scheduler/types"
	skywaytypes "github.com/palomachain/paloma/v2/x/skyway/types"
	tftypes "github.com/palomachain/paloma/v2/x/tokenfactory/types"

	"verif/harness/chain"
	"verif/harness/fw"
	"verif/harness/world"
)

// discardedTraffic: what a public node does all day next to block execution - it SIMULATES
// transactions for clients (gas estimation before broadcast) that are then changed, never sent, or
// fail. Simulation runs every message handler on a state branch that is thrown away. None of it may
// leave a trace in the node that later shows in consensus results: a twin that serves this traffic
// must keep producing the digests of a twin that does not. The transactions are chosen to collide
// with what the omnibus workload does for real later (same job ids with other content, the factory
// denom's admin handed to somebody else, other bridge-tax / limit configuration via a proposal that is
// only submitted, other relayer fees, keep-alive with another version, other external account).
// Randomness comes from the twin's variation stream only, never from the workload's PRNG.
func discardedTraffic(w *world.BridgeWorld, vr *rand.Rand, rec *fw.Recorder) {
	defer func() { recover() }()
	c := w.C
	sim := func(kind string, signer *chain.Account, msgs ...sdk.Msg) {
		tx, err := c.SignTx([]*chain.Account{signer}, msgs, chain.TxOpts{})
		if err != nil {
			return
		}
		func() {
			defer func() { recover() }()
			_, _, err := c.App.Simulate(tx)
			rec.Count("discarded_simulations", 1)
			if err == nil {
				rec.Count("discarded_simulations_ok", 1)
				rec.Count("discarded_ok/"+kind, 1)
			}
		}()
	}
	u := w.Users[vr.Intn(len(w.Users))]
	v := w.Vals[vr.Intn(len(w.Vals))]
	ch := w.Chains[vr.Intn(len(w.Chains))]
	switch vr.Intn(7) {
	case 0, 1: // a job under an id the workload uses, with other content, created AND executed in one simulated tx
		id := fmt.Sprintf("job%d", vr.Intn(6))
		def, _ := json.Marshal(map[string]string{"abi": "[]", "address": fmt.Sprintf("0x%040x", 0x5AD0000+vr.Intn(1000))})
		pay, _ := json.Marshal(map[string]string{"hexPayload": fmt.Sprintf("%x", vr.Int63())})
		job := &schedulertypes.Job{ID: id, Routing: schedulertypes.Routing{ChainType: "evm", ChainReferenceID: ch}, Definition: def, Payload: pay,
			IsPayloadModifiable: vr.Intn(2) == 0, EnforceMEVRelay: vr.Intn(2) == 0}
		sim("job-create+execute", u, &schedulertypes.MsgCreateJob{Job: job, Metadata: world.Meta(u)}, &schedulertypes.MsgExecuteJob{JobID: id, Metadata: world.Meta(u)})
	case 2: // the factory denom's admin hands it over / mints, in simulation only
		u0 := w.Users[0]
		d := world.FactoryDenom(u0, "tka")
		other := w.Users[1+vr.Intn(len(w.Users)-1)]
		sim("denom-change-admin", u0, &tftypes.MsgChangeAdmin{Denom: d, NewAdmin: other.Bech, Metadata: world.Meta(u0)})
		sim("denom-mint", u0, world.MsgMint(u0, d, sdkmath.NewInt(int64(1+vr.Intn(1000)))))
	case 3: // governance content that is only ever submitted (gov executes it on a dropped branch at submission)
		t := w.Tokens[vr.Intn(len(w.Tokens))]
		var content gogoproto.Message = &skywaytypes.SetBridgeTaxProposal{Title: "t", Description: "d", Token: t.Denom,
			Rate: []string{"0.5", "0.25", "0", "0.013"}[vr.Intn(4)], ExemptAddresses: []string{u.Bech}}
		if vr.Intn(2) == 0 {
			content = &skywaytypes.SetBridgeTransferLimitProposal{Title: "t", Description: "d", Token: t.Denom,
				Limit: sdkmath.NewInt(int64(1 + vr.Intn(500))), LimitPeriod: skywaytypes.LimitPeriod_DAILY, ExemptAddresses: []string{u.Bech}}
		}
		if any, err := codectypes.NewAnyWithValue(content); err == nil {
			lm := govv1.NewMsgExecLegacyContent(any, chain.GovAuthority())
			if sp, err := govv1.NewMsgSubmitProposal([]sdk.Msg{lm}, sdk.NewCoins(sdk.NewInt64Coin(chain.Denom, 10)), u.Bech, "", "never sent", "C08: simulated only", false); err == nil {
				sim("gov-proposal-submit", u, sp)
			}
		}
	case 4: // a validator tries other fee settings / pigeon version / external account
		sim("relayer-fee", v, world.MsgRelayerFee(v, map[string]string{ch: []string{"7.5", "1.01", "0.3"}[vr.Intn(3)]}))
		sim("keep-alive", v, world.MsgKeepAlive(v, []string{"v2.4.1", "v9.9.9", world.PigeonVersion}[vr.Intn(3)]))
	case 5: // a bridge transfer and its cancellation in one simulated tx
		t := w.Tokens[vr.Intn(len(w.Tokens))]
		sim("bridge-send", u, world.MsgSend(u, t.ChainRef, fmt.Sprintf("0x%040x", 0xAA00+vr.Intn(3)), sdk.NewCoin(t.Denom, sdkmath.NewInt(int64(1+vr.Intn(1000))))))
	case 6: // new factory denom, minted, in simulation only
		sub := fmt.Sprintf("sim%d", vr.Intn(4))
		sim("denom-create+mint", u, world.MsgCreateDenom(u, sub), world.MsgMint(u, world.FactoryDenom(u, sub), sdkmath.NewInt(77)))
	}
}
