//go:build verif

// Package c08: state transitions are a deterministic function of chain history.
//
// Twin executions: the same seeded omnibus history (the C09 workload) is executed in several
// separate PROCESSES that differ only in things that must not matter - process environment
// (every variable name the repository reads via os.Getenv/LookupEnv, found by scanning the sources
// at check time, set in one twin and unset in the other), restarts at block boundaries, extra
// read-only traffic between blocks, the database backend, GOMAXPROCS/TZ/GOGC - and the per-block
// digests (app hash, tx results, events, and the txs themselves) are compared. In the base twin,
// "pure" decisions are additionally evaluated 25 times on forks of the same state.
package c08

import (
	"bufio"
	"context"
	"crypto/sha256"
	"encoding/hex"
	"encoding/json"
	"fmt"
	"math/rand"
	"os"
	"os/exec"
	"path/filepath"
	"regexp"
	"sort"
	"strings"
	"time"

	sdkmath "cosmossdk.io/math"
	abci "github.com/cometbft/cometbft/abci/types"
	codectypes "github.com/cosmos/cosmos-sdk/codec/types"
	sdk "github.com/cosmos/cosmos-sdk/types"
	consensustypes "github.com/palomachain/paloma/v2/x/consensus/types"
	evmtypes "github.com/palomachain/paloma/v2/x/evm/types"

	"verif/harness/chain"
	"verif/harness/fw"
	"verif/harness/mon/c09"
	"verif/harness/world"
)

type twinSpec struct {
	Name    string            `json:"name"`
	SetEnv  map[string]string `json:"set_env,omitempty"`
	AllEnv  string            `json:"all_env,omitempty"` // "set" | "unset": every env name found in the repo sources
	Restart bool              `json:"restart,omitempty"`
	Queries bool              `json:"queries,omitempty"`
	LevelDB bool              `json:"leveldb,omitempty"`
	Repeat  bool              `json:"repeat,omitempty"` // repeated evaluation of pure decisions
	Race    bool              `json:"race,omitempty"`   // run by the -race build, gRPC queries + simulations CONCURRENT with block execution (race.go)
}

type params struct {
	Mode   string     `json:"mode"` // group | twin
	Omni   c09.Params `json:"omni"`
	Twins  []twinSpec `json:"twins,omitempty"`
	Spec   twinSpec   `json:"spec,omitempty"`
	Digest string     `json:"digest_file,omitempty"`
}

type blockDigest struct {
	No      int      `json:"no"`
	Height  int64    `json:"h"`
	AppHash string   `json:"app"`
	Txs     string   `json:"txs"`
	Results string   `json:"res"`
	TxRes   []string `json:"txres"`
	TxKinds []string `json:"kinds"`
	Events  string   `json:"ev"`
}

func h(parts ...[]byte) string {
	s := sha256.New()
	for _, p := range parts {
		var l [4]byte
		l[0], l[1], l[2], l[3] = byte(len(p)>>24), byte(len(p)>>16), byte(len(p)>>8), byte(len(p))
		s.Write(l[:])
		s.Write(p)
	}
	return hex.EncodeToString(s.Sum(nil))[:24]
}

func evBytes(evs []abci.Event) []byte {
	var sb strings.Builder
	for _, e := range evs {
		sb.WriteString(e.Type)
		sb.WriteByte('{')
		for _, a := range e.Attributes {
			sb.WriteString(a.Key)
			sb.WriteByte('=')
			sb.WriteString(a.Value)
			sb.WriteByte(';')
		}
		sb.WriteByte('}')
	}
	return []byte(sb.String())
}

func repoDir() string {
	if d := os.Getenv("VERIF_REPO"); d != "" {
		return d
	}
	return "/repo"
}

var envCall = regexp.MustCompile(`os\.(?:Getenv|LookupEnv)\(\s*([^)\s]+)\s*\)`)

// scanEnvNames finds every environment variable name the repository reads.
func scanEnvNames() []string {
	root := repoDir()
	consts := map[string]string{}
	constRe := regexp.MustCompile(`(?m)^\s*(?:const\s+)?(\w+)\s*(?:string\s*)?=\s*"([^"]+)"`)
	var idents, lits []string
	filepath.Walk(root, func(path string, info os.FileInfo, err error) error {
		if err != nil {
			return nil
		}
		if info.IsDir() {
			n := info.Name()
			if n == ".git" || n == "third_party" || n == "node_modules" {
				return filepath.SkipDir
			}
			return nil
		}
		if !strings.HasSuffix(path, ".go") || strings.HasSuffix(path, "_test.go") {
			return nil
		}
		b, err := os.ReadFile(path)
		if err != nil {
			return nil
		}
		src := string(b)
		if !strings.Contains(src, "os.Getenv") && !strings.Contains(src, "os.LookupEnv") {
			// still collect constants of the same package lazily: cheap enough to scan all
		}
		for _, m := range constRe.FindAllStringSubmatch(src, -1) {
			consts[m[1]] = m[2]
		}
		for _, m := range envCall.FindAllStringSubmatch(src, -1) {
			arg := m[1]
			if strings.HasPrefix(arg, `"`) {
				lits = append(lits, strings.Trim(arg, `"`))
			} else {
				idents = append(idents, arg)
			}
		}
		return nil
	})
	set := map[string]bool{}
	for _, l := range lits {
		set[l] = true
	}
	for _, id := range idents {
		if i := strings.LastIndex(id, "."); i >= 0 {
			id = id[i+1:]
		}
		if v, ok := consts[id]; ok {
			set[v] = true
		}
	}
	var out []string
	for k := range set {
		out = append(out, k)
	}
	sort.Strings(out)
	return out
}

func run(c fw.Case, tier string, rec *fw.Recorder) {
	var p params
	c.Decode(&p)
	if p.Mode == "twin" {
		runTwin(c, tier, p, rec)
		return
	}
	runGroup(c, tier, p, rec)
}

// ---------------------------------------------------------------------------------------------
// twin: one execution, digests written to a file

func runTwin(c fw.Case, tier string, p params, rec *fw.Recorder) {
	f, err := os.Create(p.Digest)
	if err != nil {
		rec.Inconclusive("cannot create digest file: " + err.Error())
		return
	}
	defer f.Close()
	bw := bufio.NewWriter(f)
	defer bw.Flush()
	vr := rand.New(rand.NewSource(c.Seed ^ 0x5eed)) // variations never touch the workload's PRNG
	omni := p.Omni
	omni.UseLevelDB = p.Spec.LevelDB
	omni.NoProbe = true
	var traffic *concurrentTraffic
	if p.Spec.Race {
		traffic = &concurrentTraffic{}
		defer func() { traffic.finish(rec) }()
	}
	hooks := c09.Hooks{
		AfterBringUp: func(w *world.BridgeWorld) {
			if traffic != nil {
				traffic.start(w, 3)
			}
		},
		OnBlockFailure: func(no int, height int64, sig, msg string) {
			// not a determinism question: record where and how the history stopped, as a digest line of its own,
			// so that twins stopping differently are compared like any other block
			d := blockDigest{No: no, Height: height, AppHash: "BLOCK-FAILED", Results: sig, Events: sig}
			b, _ := json.Marshal(d)
			bw.Write(append(b, '\n'))
			rec.Count("histories_stopped_by_block_failure", 1)
			rec.Sample(map[string]any{"history_stopped_by_block_failure_not_a_C08_matter": msg, "signature_C09_would_report": sig})
		},
		AfterBlock: func(w *world.BridgeWorld, br *chain.BlockResult, no int) {
			ch := w.C
			if traffic != nil {
				traffic.afterBlock(br)
			}
			d := blockDigest{No: no, Height: br.Height, AppHash: hex.EncodeToString(br.AppHash)}
			d.Txs = h(br.RawTxs...)
			var all [][]byte
			for i, r := range br.Txs {
				one := h([]byte(fmt.Sprintf("%d|%s", r.Code, r.Codespace)), r.Data, evBytes(r.Events),
					[]byte(fmt.Sprintf("%d|%d", br.Resp.TxResults[i].GasWanted, br.Resp.TxResults[i].GasUsed)))
				d.TxRes = append(d.TxRes, one)
				all = append(all, []byte(one))
				kind := "?"
				if tx, err := ch.App.TxConfig().TxDecoder()(br.RawTxs[i]); err == nil {
					var ks []string
					for _, m := range tx.GetMsgs() {
						ks = append(ks, sdk.MsgTypeURL(m))
					}
					kind = strings.Join(ks, "+")
				}
				d.TxKinds = append(d.TxKinds, kind)
			}
			d.Results = h(all...)
			d.Events = h(evBytes(br.Events))
			b, _ := json.Marshal(d)
			bw.Write(append(b, '\n'))
			rec.Count("blocks", 1)
			rec.Count("txs", int64(len(br.Txs)))
			if p.Spec.Restart && vr.Intn(25) == 0 {
				ch.Restart()
				rec.Count("restarts", 1)
			}
			if p.Spec.Queries && vr.Intn(3) == 0 {
				readOnlyTraffic(w, br, rec)
			}
			if p.Spec.Queries {
				discardedTraffic(w, vr, rec)
			}
			if p.Spec.Repeat && no%40 == 23 {
				repeatedEvaluation(w, rec)
			}
		},
	}
	c09.Drive(c, omni, rec, hooks)
}

// readOnlyTraffic: what RPC users and pigeons do between blocks. Must not influence later blocks.
func readOnlyTraffic(w *world.BridgeWorld, br *chain.BlockResult, rec *fw.Recorder) {
	defer func() { recover() }() // a panicking query handler is not this property's business
	c := w.C
	ctx := c.Fork(c.Height, c.Time)
	for _, chn := range w.Chains {
		q := world.TurnstoneQueue(chn)
		for _, v := range w.Vals {
			c.App.ConsensusKeeper.GetMessagesForSigning(ctx, q, v.ValAddr())
			c.App.ConsensusKeeper.GetMessagesForRelaying(ctx, q, v.ValAddr())
			c.App.ConsensusKeeper.GetMessagesForAttesting(ctx, q, v.ValAddr())
			c.App.ConsensusKeeper.GetMessagesForGasEstimation(ctx, q, v.ValAddr())
			rec.Count("queries", 4)
		}
		c.App.EvmKeeper.PickValidatorForMessage(ctx, chn, nil)
		c.App.SkywayKeeper.GetLastObservedSkywayNonce(ctx, chn)
		c.App.SkywayKeeper.GetAttestationMapping(ctx, chn)
		rec.Count("queries", 3)
	}
	c.App.SkywayKeeper.GetOutgoingTxBatches(ctx)
	c.App.SkywayKeeper.GetUnbatchedTransactions(ctx)
	c.App.ValsetKeeper.GetCurrentSnapshot(ctx)
	c.App.MetrixKeeper.Validators(ctx, nil)
	// CheckTx and Simulate of the txs that were just executed (they run on the check/simulate state)
	for _, tx := range br.RawTxs {
		c.App.CheckTx(&abci.RequestCheckTx{Tx: tx, Type: abci.CheckTxType_New})
		c.App.Simulate(tx)
		rec.Count("queries", 2)
	}
}

var palomaStores = []string{"consensus", "evm", "valset", "skyway", "paloma", "treasury", "metrix", "scheduler", "tokenfactory", "bank", "staking", "slashing", "acc", "feegrant"}

// repeatedEvaluation: decisions that must give the same answer every time on the same state.
func repeatedEvaluation(w *world.BridgeWorld, rec *fw.Recorder) {
	c := w.C
	type site struct {
		name string
		h    int64
		fn   func(ctx sdk.Context) string
	}
	next := func(mod int64) int64 { return (c.Height/mod + 1) * mod }
	endBlock := func(name string) func(ctx sdk.Context) string {
		return func(ctx sdk.Context) string {
			mod, ok := c.App.ModuleManager.Modules[name].(interface{ EndBlock(context.Context) error })
			if !ok {
				return "n/a"
			}
			return fmt.Sprint(mod.EndBlock(ctx))
		}
	}
	var sites []site
	for _, chn := range w.Chains {
		chn := chn
		sites = append(sites, site{"PickValidatorForMessage/" + chn, c.Height + 1, func(ctx sdk.Context) string {
			a, b, err := c.App.EvmKeeper.PickValidatorForMessage(ctx, chn, nil)
			return fmt.Sprint(a, b, err)
		}})
	}
	sites = append(sites,
		site{"TriggerSnapshotBuild", next(50), func(ctx sdk.Context) string {
			s, err := c.App.ValsetKeeper.TriggerSnapshotBuild(ctx)
			return fmt.Sprint(s, err)
		}},
		site{"CheckAndProcessAttestedMessages", c.Height + 1, func(ctx sdk.Context) string {
			return fmt.Sprint(c.App.ConsensusKeeper.CheckAndProcessAttestedMessages(ctx))
		}},
		// the same tally on a prepared threshold boundary: on the fork, a group of snapshot validators holding
		// EXACTLY two thirds of the shares where the stake vector allows it (else the smallest group reaching two
		// thirds) supplies identical evidence for the first pending messages of every chain, every other
		// validator supplies a second, different one; then the attestation pass runs
		site{"CheckAndProcessAttestedMessages/prepared-threshold-boundary", c.Height + 1, func(ctx sdk.Context) string {
			n := prepareBoundaryEvidence(w, ctx)
			if n == 0 {
				return "nothing-prepared"
			}
			rec.Count("boundary_tallies_prepared", 1)
			return fmt.Sprint(n, c.App.ConsensusKeeper.CheckAndProcessAttestedMessages(ctx))
		}},
		site{"consensus.EndBlock@50", next(50), endBlock("consensus")},
		site{"evm.EndBlock@300", next(300), endBlock("evm")},
		site{"valset.EndBlock@50", next(50), endBlock("valset")},
		site{"skyway.EndBlock@50", next(50), endBlock("skyway")},
		site{"metrix.EndBlock@next", next(10), endBlock("metrix")},
		site{"metrix.EndBlock@100", next(100), endBlock("metrix")},
		site{"paloma.EndBlock@303", next(303), endBlock("paloma")},
	)
	for _, s := range sites {
		first, firstRet := "", ""
		for rep := 0; rep < 25; rep++ {
			ctx := c.Fork(s.h, c.Time.Add(time.Duration(s.h-c.Height)*2*time.Second))
			ret := safe(func() string { return s.fn(ctx) })
			dg := c.DigestStores(ctx, palomaStores...) + "|" + h(evBytes(ctx.EventManager().ABCIEvents()))
			rec.Eval(1)
			rec.Count("repeated_evaluations", 1)
			if rep == 0 {
				first, firstRet = dg, ret
				continue
			}
			if dg != first || ret != firstRet {
				what := "write-set"
				if ret != firstRet {
					what = "return-value"
				}
				rec.Violation("repeat/"+s.name+"/"+what, fmt.Sprintf("%s evaluated twice on the state after block %d gave different %s", s.name, c.Height, what),
					map[string]any{"height": c.Height, "first_return": trunc(firstRet), "other_return": trunc(ret), "repetition": rep})
				break
			}
		}
		rec.Distinct(fmt.Sprintf("repeat|%s|%s", s.name, first[:16]))
	}
}

// prepareBoundaryEvidence writes, on the given (fork) context, two groups of evidence for up to three pending
// messages per chain; returns the number of messages prepared. Deterministic in the state.
func prepareBoundaryEvidence(w *world.BridgeWorld, ctx sdk.Context) int {
	c := w.C
	snap, err := c.App.ValsetKeeper.GetCurrentSnapshot(ctx)
	if err != nil || snap == nil || len(snap.Validators) < 3 || len(snap.Validators) > 12 {
		return 0
	}
	total := snap.TotalShares
	best, bestSum := 0, sdkmath.ZeroInt()
	for mask := 1; mask < 1<<len(snap.Validators)-1; mask++ {
		sum := sdkmath.ZeroInt()
		for i, v := range snap.Validators {
			if mask&(1<<i) != 0 {
				sum = sum.Add(v.ShareCount)
			}
		}
		if sum.MulRaw(3).LT(total.MulRaw(2)) {
			continue
		}
		if best == 0 || sum.LT(bestSum) {
			best, bestSum = mask, sum
		}
	}
	if best == 0 {
		return 0
	}
	pa, _ := codectypes.NewAnyWithValue(&evmtypes.SmartContractExecutionErrorProof{ErrorMessage: "boundary-a"})
	pb, _ := codectypes.NewAnyWithValue(&evmtypes.SmartContractExecutionErrorProof{ErrorMessage: "boundary-b"})
	n := 0
	for _, chn := range w.Chains {
		qn := world.TurnstoneQueue(chn)
		msgs, err := c.App.ConsensusKeeper.GetMessagesFromQueue(ctx, qn, 0)
		if err != nil {
			continue
		}
		for k, qm := range msgs {
			if k >= 3 {
				break
			}
			for i, v := range snap.Validators {
				proof := pb
				if best&(1<<i) != 0 {
					proof = pa
				}
				_ = c.App.ConsensusKeeper.AddMessageEvidence(ctx, v.Address, &consensustypes.MsgAddEvidence{Proof: proof, MessageID: qm.GetId(), QueueTypeName: qn})
			}
			n++
		}
	}
	return n
}

func trunc(s string) string {
	if len(s) > 600 {
		return s[:600] + "..."
	}
	return s
}

func safe(f func() string) (out string) {
	defer func() {
		if e := recover(); e != nil {
			out = fmt.Sprintf("PANIC %v", e)
		}
	}()
	return f()
}

// ---------------------------------------------------------------------------------------------
// group: run the twins as child processes and compare

func runGroup(c fw.Case, tier string, p params, rec *fw.Recorder) {
	self, _ := os.Executable()
	tmp := os.Getenv("VERIF_TMP")
	if tmp == "" {
		tmp = filepath.Join(os.TempDir(), fmt.Sprintf("c08-%d", os.Getpid()))
	}
	os.MkdirAll(tmp, 0o755)
	envNames := scanEnvNames()
	rec.Count("env_names_swept", int64(len(envNames)))
	rec.Sample(map[string]any{"case": c.Name, "omni": p.Omni, "twins": p.Twins, "env_names_found_in_repo_sources": envNames})
	type res struct {
		spec    twinSpec
		digests []blockDigest
		cr      fw.CaseResult
		err     string
		skipped bool
		races   []raceReport
	}
	results := make([]res, len(p.Twins))
	done := make(chan int, len(p.Twins))
	for i, sp := range p.Twins {
		go func(i int, sp twinSpec) {
			defer func() { done <- i }()
			results[i].spec = sp
			base := filepath.Join(tmp, fmt.Sprintf("twin-%d", i))
			tp := params{Mode: "twin", Omni: p.Omni, Spec: sp, Digest: base + ".digests.jsonl"}
			cc := fw.MkCase(c.Name+"/"+sp.Name, c.Seed, tp)
			b, _ := json.Marshal(cc)
			os.WriteFile(base+".case.json", b, 0o644)
			exe := self
			if sp.Race {
				exe = os.Getenv("VERIF_RACE_BIN")
				if exe == "" {
					results[i].skipped = true
					return
				}
			}
			cmd := exec.Command(exe, "worker", "--prop", "C08", "--tier", tier, "--case", base+".case.json", "--out", base+".result.json", "--oplog", "")
			env := []string{}
			drop := map[string]bool{}
			if sp.AllEnv == "unset" {
				for _, n := range envNames {
					drop[n] = true
				}
			}
			for _, e := range os.Environ() {
				if i := strings.IndexByte(e, '='); i > 0 && drop[e[:i]] {
					continue
				}
				env = append(env, e)
			}
			if sp.AllEnv == "set" {
				for _, n := range envNames {
					env = append(env, n+"=1")
				}
			}
			for k, v := range sp.SetEnv {
				env = append(env, k+"="+v)
			}
			env = append(env, "VERIF_TMP="+base+".tmp")
			if sp.Race {
				env = append(env, "GORACE=halt_on_error=0 exitcode=0 log_path="+base+".race")
			}
			cmd.Env = env
			lf, _ := os.Create(base + ".log")
			cmd.Stdout, cmd.Stderr = lf, lf
			err := cmd.Run()
			lf.Close()
			os.RemoveAll(base + ".tmp")
			if sp.Race {
				results[i].races = parseRaceLogs(base + ".race.*")
				// keep the raw reports next to the per-case logs (the tmp dir is removed after the case)
				if files, _ := filepath.Glob(base + ".race.*"); len(files) > 0 {
					for k, f := range files {
						if b, e := os.ReadFile(f); e == nil {
							os.WriteFile(filepath.Join(filepath.Dir(tmp), fmt.Sprintf("%s.race-reports-%d.txt", c.Name, k)), b, 0o644)
						}
					}
				}
			}
			if err != nil {
				results[i].err = fmt.Sprintf("twin %s failed: %v (log %s)", sp.Name, err, base+".log")
				return
			}
			rb, err := os.ReadFile(base + ".result.json")
			if err != nil || json.Unmarshal(rb, &results[i].cr) != nil {
				results[i].err = "twin " + sp.Name + ": no result"
				return
			}
			df, err := os.Open(tp.Digest)
			if err != nil {
				results[i].err = "twin " + sp.Name + ": no digests"
				return
			}
			sc := bufio.NewScanner(df)
			sc.Buffer(make([]byte, 1<<20), 1<<26)
			for sc.Scan() {
				var d blockDigest
				if json.Unmarshal(sc.Bytes(), &d) == nil {
					results[i].digests = append(results[i].digests, d)
				}
			}
			df.Close()
		}(i, sp)
	}
	for range p.Twins {
		<-done
	}
	kept := results[:0]
	for _, r := range results {
		if r.skipped {
			rec.Count("race_twin_skipped_no_race_binary", 1)
			continue
		}
		kept = append(kept, r)
	}
	results = kept
	for _, r := range results {
		if r.spec.Race && r.err == "" {
			rec.Count("race_twins_run", 1)
			judgeRaces(r.races, r.spec.Name, rec)
		}
		if r.err != "" {
			rec.Inconclusive(r.err)
			return
		}
		if r.cr.Inconclusive != "" {
			rec.Inconclusive("twin " + r.spec.Name + ": " + r.cr.Inconclusive)
			return
		}
		for k, v := range r.cr.Counters {
			rec.Count(k, v)
		}
		rec.Eval(r.cr.Evaluations)
		for _, d := range r.cr.Distinct {
			rec.Distinct("child|" + d)
		}
		for _, v := range r.cr.Violations {
			rec.Violation(v.Signature, v.Message, v.Witness)
		}
	}
	base := results[0]
	for _, o := range results[1:] {
		n := len(base.digests)
		if len(o.digests) < n {
			n = len(o.digests)
		}
		diverged := false
		for i := 0; i < n && !diverged; i++ {
			a, b := base.digests[i], o.digests[i]
			rec.Eval(1)
			rec.Count("blocks_compared", 1)
			if fa, fb := a.AppHash == "BLOCK-FAILED", b.AppHash == "BLOCK-FAILED"; fa || fb {
				if fa != fb || a.Results != b.Results {
					rec.Violation("twin-divergence/"+variation(o.spec)+"/block-failure", fmt.Sprintf("twins %q and %q executed the same blocks; at height %d block execution failed in one of them only, or differently (%s vs %s)", base.spec.Name, o.spec.Name, a.Height, a.Results, b.Results),
						map[string]any{"height": a.Height, "block_no": a.No, "twin_a": base.spec, "twin_b": o.spec})
					diverged = true
				}
				continue
			}
			if a.Txs != b.Txs {
				// identical app hashes so far but different inputs: the HARNESS was not deterministic
				rec.Inconclusive(fmt.Sprintf("twins %s/%s: workload diverged at block %d although all earlier digests agree", base.spec.Name, o.spec.Name, a.No))
				return
			}
			if a.Results != b.Results {
				kind := "?"
				idx := -1
				for j := range a.TxRes {
					if j < len(b.TxRes) && a.TxRes[j] != b.TxRes[j] {
						idx, kind = j, a.TxKinds[j]
						break
					}
				}
				rec.Violation("twin-divergence/"+variation(o.spec)+"/tx-result/"+kind,
					fmt.Sprintf("twins %q and %q executed the same blocks; at height %d the result of tx %d (%s) differs", base.spec.Name, o.spec.Name, a.Height, idx, kind),
					map[string]any{"height": a.Height, "block_no": a.No, "tx_index": idx, "tx_kind": kind, "twin_a": base.spec, "twin_b": o.spec})
				diverged = true
			} else if a.Events != b.Events {
				rec.Violation("twin-divergence/"+variation(o.spec)+"/block-events", fmt.Sprintf("twins %q and %q: begin/end-block events differ at height %d", base.spec.Name, o.spec.Name, a.Height),
					map[string]any{"height": a.Height, "twin_a": base.spec, "twin_b": o.spec})
				diverged = true
			} else if a.AppHash != b.AppHash {
				rec.Violation("twin-divergence/"+variation(o.spec)+"/app-hash", fmt.Sprintf("twins %q and %q: app hash differs at height %d although tx results and events agree", base.spec.Name, o.spec.Name, a.Height),
					map[string]any{"height": a.Height, "twin_a": base.spec, "twin_b": o.spec})
				diverged = true
			}
		}
		if !diverged && len(base.digests) != len(o.digests) {
			rec.Inconclusive(fmt.Sprintf("twins %s/%s executed %d vs %d blocks", base.spec.Name, o.spec.Name, len(base.digests), len(o.digests)))
		}
		rec.Count("twin_pairs_compared", 1)
		rec.Distinct("pair|" + c.Name + "|" + o.spec.Name)
	}
}

func variation(s twinSpec) string {
	var v []string
	if s.AllEnv != "" || len(s.SetEnv) > 0 {
		v = append(v, "env")
	}
	if s.Restart {
		v = append(v, "restart")
	}
	if s.Queries {
		v = append(v, "queries")
	}
	if s.LevelDB {
		v = append(v, "leveldb")
	}
	if s.Race {
		v = append(v, "concurrent-queries")
	}
	if len(v) == 0 {
		return "none"
	}
	return strings.Join(v, "+")
}

func cases(tier string, seed int64) []fw.Case {
	var cs []fw.Case
	n, blocks := 8, 340
	if tier == "thorough" {
		n, blocks = 20, 700
	}
	// the equal-stake vectors make groups of validators hold EXACTLY two thirds (2 of 3, 4 of 6; 3 of 4 after a jailing):
	// tallies on a threshold boundary with a dissenting rest are where iteration-order dependence shows
	stakes := [][]int64{{40e6, 30e6, 20e6, 10e6}, {30e6, 30e6, 30e6}, {30e6, 20e6, 20e6, 15e6, 15e6}, {25e6, 25e6, 25e6, 25e6}, {20e6, 20e6, 20e6, 20e6, 20e6, 20e6}}
	for i := 0; i < n; i++ {
		omni := c09.Params{Stakes: stakes[i%len(stakes)], NChains: 1 + i%2, Blocks: blocks, Focus: []string{"mixed", "consensus", "skyway", "jobs"}[i%4], Hostile: 35, HonestValsetAt: []int{70, 0, 120}[i%3],
			// genesis on the evening before a month end, at a month end, or shortly before a daylight-saving switch
			StartUnix: []int64{time.Date(2025, 1, 30, 12, 0, 0, 0, time.UTC).Unix(), 0, time.Date(2025, 3, 31, 2, 0, 0, 0, time.UTC).Unix(), time.Date(2025, 10, 30, 22, 0, 0, 0, time.UTC).Unix()}[i%4]}
		twins := []twinSpec{
			{Name: "base-env-unset", AllEnv: "unset", Repeat: true},
			{Name: "env-set", AllEnv: "set", SetEnv: map[string]string{"TZ": "Pacific/Kiritimati", "GOMAXPROCS": "1", "GOGC": "20", "LANG": "tr_TR.UTF-8"}},
			{Name: "restart+queries", AllEnv: "unset", Restart: true, Queries: true},
			{Name: "leveldb", AllEnv: "unset", LevelDB: true, SetEnv: map[string]string{"TZ": "America/New_York"}},
		}
		if tier == "thorough" {
			twins = append(twins, twinSpec{Name: "env-set+restart+queries+leveldb", AllEnv: "set", Restart: true, Queries: true, LevelDB: true},
				twinSpec{Name: "plain-repeat", AllEnv: "unset"})
			if i%4 == 0 {
				twins = append(twins, twinSpec{Name: "race+concurrent-queries", AllEnv: "unset", Race: true})
			}
		}
		cs = append(cs, fw.MkCase(fmt.Sprintf("group-%02d", i), seed*32452843+int64(i), params{Mode: "group", Omni: omni, Twins: twins}))
	}
	return cs
}

func init() {
	fw.Register(&fw.Prop{
		ID:    "C08",
		Level: "exploration",
		Rule: "each case is one seeded omnibus history (the C09 workload: bridge, jobs, pigeons, governance, hostile-but-accepted values, heights through 0 mod 10/50/300/303) executed by 4 (quick) / 6 (thorough) twin PROCESSES that differ only in: every environment variable the repository reads (names found by scanning os.Getenv/LookupEnv in the sources at check time) set vs unset plus TZ/GOMAXPROCS/GOGC/LANG, restarts of the application at random block boundaries, read-only traffic between blocks (queue queries for every validator, relayer pick, skyway queries, CheckTx and Simulate), memdb vs goleveldb. Per block the digests of (raw txs, per-tx code/data/gas/events, block events, app hash) are compared against the base twin. In the base twin every 40 blocks relayer pick, snapshot build, attestation processing and the consensus/evm/valset/skyway/metrix/paloma end-blockers are evaluated 25 times on forks of the same state (Go re-randomises map iteration per loop) and write-set digests + return values compared; one more site prepares, on the fork, evidence by a group holding EXACTLY two thirds of the snapshot shares (stake vectors with 3, 4 and 6 equal stakes make that possible) plus a dissenting rest for the first pending messages of every chain and then runs the attestation pass. " +
			"evaluations = block comparisons + repeated evaluations; distinct_nontrivial = twin pairs compared + distinct (repeated-evaluation site, resulting state) pairs",
		Assumptions: []string{
			"the harness's own workload generator is deterministic (if two twins with identical digests so far produce different txs the run is INCONCLUSIVE, not a violation)",
			"cross-architecture floating point differences cannot be observed on one machine",
			"tx log strings are excluded from the digest (CometBFT does not hash them)",
		},
		Cases:       cases,
		Run:         run,
		MinCounters: []string{"blocks_compared", "twin_pairs_compared", "repeated_evaluations", "boundary_tallies_prepared", "restarts", "queries", "env_names_swept", "discarded_simulations_ok", "discarded_ok/job-create+execute", "discarded_ok/denom-change-admin", "discarded_ok/gov-proposal-submit"},
		Workers:     5,
		TimeoutS:    2400,
	})
}
