package c13

import (
	"crypto/ecdsa"
	"encoding/hex"
	"encoding/json"
	"fmt"
	"math/rand"
	"os"
	"regexp"
	"runtime/debug"
	"sort"
	"strconv"
	"strings"
	"time"

	sdkmath "cosmossdk.io/math"
	abci "github.com/cometbft/cometbft/abci/types"
	codectypes "github.com/cosmos/cosmos-sdk/codec/types"
	sdk "github.com/cosmos/cosmos-sdk/types"
	slashingtypes "github.com/cosmos/cosmos-sdk/x/slashing/types"
	"github.com/ethereum/go-ethereum/common"

	consensustypes "github.com/palomachain/paloma/v2/x/consensus/types"
	evmtypes "github.com/palomachain/paloma/v2/x/evm/types"
	schedulertypes "github.com/palomachain/paloma/v2/x/scheduler/types"
	skywaytypes "github.com/palomachain/paloma/v2/x/skyway/types"
	valsettypes "github.com/palomachain/paloma/v2/x/valset/types"

	"verif/harness/chain"
	"verif/harness/fw"
	"verif/harness/world"
)

var debugOn = os.Getenv("C13_DEBUG") != ""

func dbg(format string, a ...any) {
	if debugOn {
		fmt.Printf(format+"\n", a...)
	}
}

// ---------------------------------------------------------------------------------------------
// monitor state

// cpEntry: one checkpoint the chain issued for signing (seen as BytesToSign of a stored batch).
type cpEntry struct {
	CP        string // hex
	Stage     string // built | re-estimated
	Rebuilt   bool   // the batch carries transfers of an earlier, timed-out batch
	Chain     string
	Key       string // batch key chain|token|nonce
	Subject   skywaytypes.OutgoingTxBatch
	FirstSeen int64
	Act       string // activation state of the chain when the checkpoint was first seen (activate.go)
	InfoID    string // compass unique id of the evm chain info at that time (monitor's model)
}

// confirmation: a signature a validator produced over an issued checkpoint.
type confirmation struct {
	Signer   int
	Entry    *cpEntry
	SigHex   string
	SignedAt int64
	Accepted bool // the MsgConfirmBatch carrying it was accepted by the chain
}

type batchTrack struct {
	key       string
	chain     string
	token     string
	nonce     uint64
	state     string // live-unestimated | live-estimated | timed-out | executed
	entries   []*cpEntry
	estimated map[int]bool
	signed    map[string]bool         // validator|cp
	accepted  map[string]map[int]bool // cp -> validators whose confirm was accepted
	txIDs     []uint64
	claimSent bool
}

type qmsg struct {
	queue     string
	id        uint64
	addedAt   int64
	delivered string // "", public, error, error+public
	hasErr    bool   // error data stored on the message
	hasPub    bool   // public access data stored on the message
	evidence  []string
	turnstone bool
	gasEst    uint64
	needsGas  bool
}

type obs struct {
	h       int64
	batches []skywaytypes.InternalOutgoingTxBatch
	jailed  []bool
	snap    *valsettypes.Snapshot
	msgs    map[string]qmsg
}

type planEv struct {
	Val   int
	Group int
	At    int64
	Phase int // 0: any time; 1: once the error report is on the message; 2: once the transaction (public access data) is on it
}

type msgTrack struct {
	key       string
	queue     string
	chain     string
	chainIdx  int
	id        uint64
	addedAt   int64
	class     string
	deliver   string // public | error | none | error-then-public
	deliverAt int64
	ev        []planEv
	estimate  bool // pigeons estimate gas for it (-> elected estimate)
	sign      bool // ... and sign it afterwards
	estSent   map[int]bool
	signSent  map[int]bool
	recorded  map[int]int // validator -> proof group (accepted MsgAddEvidence)
	delivered string
	done      bool
	redeliveredTrack
	edgeTrack
}

type sentTx struct {
	idx  int
	kind string
	cb   func(chain.TxResult)
}

type pendingEvidence struct {
	ec  evCase
	ver verdict
}

type mon struct {
	rec *fw.Recorder
	r   *rand.Rand
	w   *world.BridgeWorld
	c   *chain.Chain
	p   params

	stake []int64
	total int64

	archive     map[string]*cpEntry
	tracks      map[string]*batchTrack
	confs       []*confirmation
	cancelledTx map[uint64]bool

	outbox  map[int][]outMsg
	claimsQ map[int][]*skywaytypes.MsgBatchSendToRemoteClaim
	evNonce map[string]uint64
	ethH    uint64

	msgs   map[string]*msgTrack
	jobs   map[string]bool
	proofs map[string]*codectypes.Any

	cur     obs
	sent    []sentTx
	seq     map[string]uint64
	pendEv  *pendingEvidence
	sched   []scheduledReplay
	stopped bool
	nSample int
	startH  int64

	// deployment / activation states (activate.go)
	act  map[string]*chainAct
	plan []actPlan
	acts []actDone
	nAct int

	// replays under other chain reference ids, worlds whose chains share the compass unique id (crossref.go)
	xr          *rand.Rand
	sharedRound *evmtypes.SmartContract
	sharedOld   *evmtypes.SmartContract

	// registered bridge keys over time (rekey.go)
	keys     *keyModel
	kr       *rand.Rand
	proofKey *ecdsa.PrivateKey
}

type outMsg struct {
	notBefore int64
	kind      string
	msg       sdk.Msg
	cb        func(chain.TxResult)
}

type scheduledReplay struct {
	at   int64
	conf *confirmation
}

// ---------------------------------------------------------------------------------------------

func run(c fw.Case, tier string, rec *fw.Recorder) {
	var p params
	c.Decode(&p)
	r := c.Rand()
	chains := []string{"eth-main", "bnb-main"}[:p.NChains]
	subs := []string{"tka", "tkb", "tkc"}[:p.NSubs]
	w, err := world.NewBridgeWorld(world.BridgeOpts{Prefix: fmt.Sprintf("c13-%d", c.Seed), Stakes: p.Stakes, NUsers: p.NUsers, Chains: chains,
		FactorySubs: subs, MapUgrain: p.MapUgrain, CaptureLog: false})
	if w != nil && w.C != nil {
		defer w.C.Close()
	}
	if err != nil {
		rec.Inconclusive("bring-up failed: " + err.Error())
		return
	}
	m := &mon{rec: rec, r: r, w: w, c: w.C, p: p, archive: map[string]*cpEntry{}, tracks: map[string]*batchTrack{},
		cancelledTx: map[uint64]bool{}, outbox: map[int][]outMsg{}, claimsQ: map[int][]*skywaytypes.MsgBatchSendToRemoteClaim{}, evNonce: map[string]uint64{}, ethH: 1000,
		msgs: map[string]*msgTrack{}, jobs: map[string]bool{}, proofs: map[string]*codectypes.Any{}}
	for i := range w.Vals {
		m.stake = append(m.stake, p.Stakes[i])
		m.total += p.Stakes[i]
	}
	// governance-set treasury fees a live network has (fee-paying messages need them)
	_ = m.c.App.TreasuryKeeper.SetCommunityFundFee(m.c.Ctx(), "0.01")
	_ = m.c.App.TreasuryKeeper.SetSecurityFee(m.c.Ctx(), "0.02")
	rec.Sample(map[string]any{"params": p, "tokens": w.Tokens, "start_height": m.c.Height})
	m.startH = m.c.Height
	m.xr = newCrossRand(c.Seed)
	m.initKeys(c.Seed)
	if !m.shareCompassIDs() {
		return
	}
	m.planActivations(c.Seed)
	m.cur = m.observe()
	m.absorb(m.cur, nil)
	for b := 0; b < p.Blocks && !m.stopped; b++ {
		m.step()
	}
}

func (m *mon) weight(kind string) int {
	switch m.p.Focus {
	case "batch":
		if kind == "prune" {
			return 35
		}
		return 100
	case "prune":
		if kind == "batch" {
			return 45
		}
		return 100
	}
	return 80
}

func (m *mon) chance(kind string, pct int) bool {
	return m.r.Intn(10000) < pct*m.weight(kind)
}

// ---------------------------------------------------------------------------------------------
// observation

func (m *mon) jailedFlags(ctx sdk.Context) []bool {
	out := make([]bool, len(m.w.Vals))
	for i, v := range m.w.Vals {
		val, err := m.c.App.StakingKeeper.GetValidator(ctx, v.ValAddr())
		if err == nil {
			out[i] = val.IsJailed()
		}
	}
	return out
}

var subQueues = []string{"evm-turnstone-message", "validators-balances", "reference-block", "collect-fund-events"}

func (m *mon) observe() obs {
	c := m.c
	ctx := c.Ctx()
	o := obs{h: c.Height, msgs: map[string]qmsg{}}
	o.batches, _ = c.App.SkywayKeeper.GetOutgoingTxBatches(ctx)
	o.jailed = m.jailedFlags(ctx)
	o.snap, _ = c.App.ValsetKeeper.GetCurrentSnapshot(ctx)
	for _, ch := range m.w.Chains {
		for _, sub := range subQueues {
			q := world.QueueName(sub, ch)
			msgs, err := c.App.ConsensusKeeper.GetMessagesFromQueue(ctx, q, 0)
			if err != nil {
				continue
			}
			for _, qm := range msgs {
				e := qmsg{queue: q, id: qm.GetId(), addedAt: qm.GetAddedAtBlockHeight(), turnstone: sub == "evm-turnstone-message",
					gasEst: qm.GetGasEstimate(), needsGas: qm.GetRequireGasEstimation()}
				e.hasPub, e.hasErr = qm.GetPublicAccessData() != nil, qm.GetErrorData() != nil
				switch {
				case e.hasPub && e.hasErr:
					e.delivered = "error+public"
				case e.hasPub:
					e.delivered = "public"
				case e.hasErr:
					e.delivered = "error"
				}
				for _, ev := range qm.GetEvidence() {
					e.evidence = append(e.evidence, ev.GetValAddress().String())
				}
				o.msgs[fmt.Sprintf("%s|%d", q, e.id)] = e
			}
		}
	}
	return o
}

func batchKey(b *skywaytypes.InternalOutgoingTxBatch) string {
	return fmt.Sprintf("%s|%s|%d", b.ChainReferenceID, strings.ToLower(b.TokenContract.GetAddress().Hex()), b.BatchNonce)
}

func hasEvent(evs []abci.Event, suffix string) int {
	n := 0
	for _, e := range evs {
		if strings.HasSuffix(e.Type, suffix) {
			n++
		}
	}
	return n
}

// absorb updates the archive of issued checkpoints and the batch life-cycle tracks from the
// observation at a block boundary.
func (m *mon) absorb(o obs, br *chain.BlockResult) {
	live := map[string]bool{}
	for i := range o.batches {
		b := &o.batches[i]
		key := batchKey(b)
		live[key] = true
		bt := m.tracks[key]
		if bt == nil {
			bt = &batchTrack{key: key, chain: b.ChainReferenceID, token: b.TokenContract.GetAddress().Hex(), nonce: b.BatchNonce,
				estimated: map[int]bool{}, signed: map[string]bool{}, accepted: map[string]map[int]bool{}}
			for _, tx := range b.Transactions {
				bt.txIDs = append(bt.txIDs, tx.Id)
			}
			m.tracks[key] = bt
			m.rec.Count("batches_seen", 1)
		}
		if b.GasEstimate == 0 {
			bt.state = "live-unestimated"
		} else {
			bt.state = "live-estimated"
		}
		cp := hex.EncodeToString(b.BytesToSign)
		if _, ok := m.archive[cp]; ok {
			continue
		}
		ext := b.ToExternal()
		// the published bytes must be the checkpoint of the stored batch (reference encoder)
		ref, ok := refCheckpoint(&ext, m.infoID(b.ChainReferenceID))
		m.rec.Eval(1)
		if !ok || hex.EncodeToString(ref) != cp {
			m.rec.Inconclusive(fmt.Sprintf("reference checkpoint encoder disagrees with stored BytesToSign for batch %s (ref ok=%v %x, stored %s)", key, ok, ref, cp))
			m.stopped = true
			return
		}
		e := &cpEntry{CP: cp, Chain: b.ChainReferenceID, Key: key, Subject: ext, FirstSeen: o.h, Act: m.actState(b.ChainReferenceID), InfoID: m.infoID(b.ChainReferenceID)}
		if len(bt.entries) == 0 && b.GasEstimate == 0 {
			e.Stage = "built"
		} else {
			e.Stage = "re-estimated"
		}
		for _, id := range bt.txIDs {
			if m.cancelledTx[id] {
				e.Rebuilt = true
			}
		}
		bt.entries = append(bt.entries, e)
		m.archive[cp] = e
		m.rec.Count("checkpoints_archived:"+e.Stage, 1)
		m.rec.Count("checkpoints_archived_in_activation_state:"+e.Act+"/"+e.Stage, 1)
		if e.Rebuilt {
			m.rec.Count("checkpoints_archived:of-rebuilt-batch", 1)
		}
		dbg("h=%d archive %s stage=%s rebuilt=%v key=%s est=%d", o.h, cp[:12], e.Stage, e.Rebuilt, key, b.GasEstimate)
	}
	// batches that disappeared
	var gone []*batchTrack
	for key, bt := range m.tracks {
		if !live[key] && strings.HasPrefix(bt.state, "live") {
			gone = append(gone, bt)
		}
	}
	sort.Slice(gone, func(i, j int) bool { return gone[i].key < gone[j].key })
	cancels := 0
	if br != nil {
		cancels = hasEvent(br.Events, "EventOutgoingBatchCanceled")
		for _, t := range br.Txs {
			cancels += hasEvent(t.Events, "EventOutgoingBatchCanceled")
		}
	}
	for _, bt := range gone {
		if cancels > 0 && !bt.claimSent {
			bt.state = "timed-out"
			for _, id := range bt.txIDs {
				m.cancelledTx[id] = true
			}
		} else if cancels > 0 && m.c.Time.Unix() > int64(bt.entries[0].Subject.BatchTimeout) {
			bt.state = "timed-out"
			for _, id := range bt.txIDs {
				m.cancelledTx[id] = true
			}
		} else {
			bt.state = "executed"
		}
		m.rec.Count("batches_"+bt.state, 1)
		dbg("h=%d batch %s -> %s", o.h, bt.key, bt.state)
		// replay every signature ever made for this batch right after the transition
		for _, cf := range m.confs {
			if cf.Entry.Key == bt.key {
				m.replayOnFork(cf, "transition")
			}
		}
	}
}

// ---------------------------------------------------------------------------------------------
// sending

func (m *mon) send(a *chain.Account, kind string, msg sdk.Msg, cb func(chain.TxResult)) bool {
	idx := m.c.PendingCount()
	off := m.seq[a.Bech]
	m.rec.Op(map[string]any{"h": m.c.Height + 1, "op": kind, "actor": a.Name, "msg": sdk.MsgTypeURL(msg)})
	if err := m.c.QueueTx(a, off, msg); err != nil {
		m.rec.Count("harness_tx_build_failed", 1)
		return false
	}
	m.seq[a.Bech] = off + 1
	m.sent = append(m.sent, sentTx{idx: idx, kind: kind, cb: cb})
	return true
}

func (m *mon) valIdx(a *chain.Account) int {
	for i, v := range m.w.Vals {
		if v == a {
			return i
		}
	}
	return -1
}

// ---------------------------------------------------------------------------------------------
// one block

func (m *mon) step() {
	c, r, w := m.c, m.r, m.w
	h := c.Height + 1
	m.sent = nil
	m.seq = map[string]uint64{}
	m.pendEv = nil
	pre := m.cur

	// --- deployments: (re-)activations of chains planned for this boundary
	m.activationOps(h)
	if m.stopped {
		return
	}
	// --- pigeons that come up with a new bridge key register it (rekey.go)
	m.rekeyOps(h)

	// --- users: bridge traffic
	for _, u := range w.Users {
		if m.chance("batch", 14) {
			t := w.Tokens[r.Intn(len(w.Tokens))]
			amt := sdkmath.NewInt(int64(1 + r.Intn(5000)))
			dest := fmt.Sprintf("0x%040x", 0xAA00+r.Intn(4))
			m.send(u, "send", world.MsgSend(u, t.ChainRef, dest, sdk.NewCoin(t.Denom, amt)), func(res chain.TxResult) {
				if res.OK() {
					m.rec.Count("sends_accepted", 1)
				}
			})
		}
	}
	// --- users: jobs -> cross-chain messages
	if h <= m.startH+int64(m.p.Blocks)-305 {
		m.jobOps(h)
	}
	// --- pigeons
	m.pigeonBatchOps(h)
	m.pigeonMessageOps(h)
	m.flushOutboxes(h)
	// --- adversary: real bad-signature-evidence transactions (never in a prune block)
	if h%50 != 0 && m.keys.sentAt != h {
		m.realEvidenceOps(h)
	}
	// --- jailed validators ask to be released (not in a block whose jailings are being judged)
	for i, v := range w.Vals {
		if m.pendEv == nil && pre.jailed[i] && r.Intn(100) < 30 {
			m.send(v, "unjail", slashingtypes.NewMsgUnjail(v.ValBech()), func(res chain.TxResult) {
				if res.OK() {
					m.rec.Count("unjail_accepted", 1)
				} else {
					m.rec.Count("unjail_rejected", 1)
				}
			})
		}
	}

	bs := m.p.BlockSecs
	if bs < 1 {
		bs = 3
	}
	dt := time.Duration(1+r.Intn(bs)) * time.Second
	if m.p.TimeJumps && r.Intn(45) == 0 {
		dt = time.Duration(30+r.Intn(400)) * time.Second
	}
	br := c.NextBlockAfter(dt)
	if br.Panic != "" || br.Err != nil {
		// begin/end-block aborts are property C09's business; this history cannot go on
		m.rec.Count("block_aborted", 1)
		m.rec.Inconclusive(fmt.Sprintf("block %d aborted: %s %v", h, firstLine(br.Panic), br.Err))
		m.stopped = true
		return
	}
	for _, s := range m.sent {
		if s.idx < len(br.Txs) {
			res := br.Txs[s.idx]
			if res.OK() {
				m.rec.Count("tx_ok:"+s.kind, 1)
			} else {
				m.rec.Count("tx_rejected:"+s.kind, 1)
				dbg("h=%d tx %s rejected: %s", h, s.kind, firstLine(res.Log))
			}
			if s.cb != nil {
				s.cb(res)
			}
		}
	}
	post := m.observe()
	m.checkBlock(pre, post, br)
	m.noteLostEvidence(post)
	m.absorb(post, br)
	m.cur = post
	if m.stopped {
		return
	}
	m.noteKeyWindows()
	m.forkRound()
}

func firstLine(s string) string {
	if i := strings.IndexByte(s, '\n'); i >= 0 {
		s = s[:i]
	}
	if len(s) > 300 {
		s = s[:300]
	}
	return s
}

// ---------------------------------------------------------------------------------------------
// pigeons: bridge batches

var estimateValues = []uint64{dummyGasEstimate, 100_000, 101_000, 123_456, 250_000, 299_999, 300_001, 450_000, 2_000_000}

func (m *mon) pigeonBatchOps(h int64) {
	r, w := m.r, m.w
	for i := range m.cur.batches {
		b := m.cur.batches[i]
		bt := m.tracks[batchKey(&b)]
		if bt == nil {
			continue
		}
		cp := hex.EncodeToString(b.BytesToSign)
		entry := m.archive[cp]
		for vi, v := range w.Vals {
			vi, v := vi, v
			if b.GasEstimate == 0 && !bt.estimated[vi] && m.chance("batch", 16) {
				bt.estimated[vi] = true
				est := estimateValues[r.Intn(len(estimateValues))]
				m.outbox[vi] = append(m.outbox[vi], outMsg{notBefore: h, kind: "batch-estimate",
					msg: world.MsgBatchEstimate(v, b.BatchNonce, b.TokenContract.GetAddress().Hex(), est)})
			}
			if entry != nil && !bt.signed[fmt.Sprintf("%d|%s", vi, cp)] && m.chance("batch", 14) {
				bt.signed[fmt.Sprintf("%d|%s", vi, cp)] = true
				// the pigeon signs the bytes the chain hands out for this batch
				cm := world.MsgBatchConfirmOver(v, b, b.BytesToSign)
				cf := &confirmation{Signer: vi, Entry: entry, SigHex: cm.Signature, SignedAt: m.cur.h}
				m.confs = append(m.confs, cf)
				m.rec.Count("confirmations_archived", 1)
				m.rec.Count("confirmations_archived:"+entry.Stage, 1)
				delay := int64(0)
				if r.Intn(3) == 0 {
					delay = int64(1 + r.Intn(4))
				}
				m.outbox[vi] = append(m.outbox[vi], outMsg{notBefore: h + delay, kind: "batch-confirm", msg: cm, cb: func(res chain.TxResult) {
					if res.OK() {
						cf.Accepted = true
						m.rec.Count("confirmations_accepted:"+entry.Stage, 1)
						if bt.accepted[cp] == nil {
							bt.accepted[cp] = map[int]bool{}
						}
						bt.accepted[cp][vi] = true
						// somebody will replay this one for real later
						if r.Intn(100) < 30 {
							m.sched = append(m.sched, scheduledReplay{at: m.c.Height + 1 + int64(r.Intn(120)), conf: cf})
						}
					} else {
						m.rec.Count("confirmations_late_or_rejected", 1)
					}
				}})
			}
		}
		// the remote chain executes a batch that has an estimate and confirmations of >= 2/3 power
		if b.GasEstimate > 0 && !bt.claimSent && int64(b.BatchTimeout) > m.c.Time.Unix()+30 {
			pw := int64(0)
			for vi := range bt.accepted[cp] {
				pw += m.stake[vi]
			}
			execPct := 10
			if m.p.LazyRemote {
				execPct = 1
			}
			if pw*3 >= m.total*2 && m.chance("batch", execPct) {
				bt.claimSent = true
				m.evNonce[b.ChainReferenceID]++
				m.ethH += uint64(1 + r.Intn(5))
				for vi, v := range w.Vals {
					m.claimsQ[vi] = append(m.claimsQ[vi], world.MsgBatchClaim(v, b.ChainReferenceID, m.claimCompassID(b.ChainReferenceID), m.evNonce[b.ChainReferenceID], m.ethH,
						b.BatchNonce, b.TokenContract.GetAddress().Hex()))
				}
				m.rec.Count("remote_batch_executed", 1)
			}
		}
	}
}

func (m *mon) flushOutboxes(h int64) {
	r, w := m.r, m.w
	ctx := m.c.Ctx()
	for vi, v := range w.Vals {
		// oracle claims first, in nonce order
		if q := m.claimsQ[vi]; len(q) > 0 && r.Intn(10) < 8 {
			cl := q[0]
			last, err := m.c.App.SkywayKeeper.GetLastSkywayNonceByValidator(ctx, v.ValAddr(), cl.ChainReferenceId)
			if err == nil && cl.EventNonce <= last {
				m.claimsQ[vi] = q[1:]
			} else if err == nil && cl.EventNonce == last+1 {
				m.claimsQ[vi] = q[1:]
				m.send(v, "batch-claim", cl, nil)
			}
		}
		var keep []outMsg
		n := 0
		for _, om := range m.outbox[vi] {
			if om.notBefore > h || n >= 4 || r.Intn(10) == 0 {
				keep = append(keep, om)
				continue
			}
			n++
			m.send(v, om.kind, om.msg, om.cb)
		}
		m.outbox[vi] = keep
	}
}

// ---------------------------------------------------------------------------------------------
// bad-signature evidence: cases, reference verdict, judgement

type evCase struct {
	Subject  skywaytypes.OutgoingTxBatch
	SigHex   string
	ChainRef string
	Kind     string // replay | replay-equivalent:<what> | bad:<field> | foreign-key | mismatch | wrong-chain
	Stage    string // stage of the signed checkpoint (replays)
	State    string // state of the batch when the evidence is submitted
	Sender   *chain.Account
	Mode     string        // fork | realtx
	Conf     *confirmation // the genuine signature the evidence is made of (replays; nil for fabricated signatures)
	Retired  *retiredKey   // the signature was made with this retired key (rekey.go)
	Rel      string        // relation of ChainRef to the chain the signature was made for (crossref.go; "" = decide at judgement)
}

type verdict struct {
	RefOK  bool
	CP     string
	Issued bool
	Entry  *cpEntry
	Signer int    // validator whose registered key signed CP; -1: none
	Addr   string // address recovered from the signature over CP
}

func cloneBatch(b skywaytypes.OutgoingTxBatch) skywaytypes.OutgoingTxBatch {
	bz, err := b.Marshal()
	if err != nil {
		panic(err)
	}
	var out skywaytypes.OutgoingTxBatch
	if err := out.Unmarshal(bz); err != nil {
		panic(err)
	}
	return out
}

func (m *mon) refVerdict(ec evCase) verdict {
	v := verdict{Signer: -1}
	if _, ok := m.w.Compass[ec.ChainRef]; !ok {
		return v
	}
	// the id the evm chain info carries now (changes only when a newer compass takes over)
	compass := m.infoID(ec.ChainRef)
	subj := ec.Subject
	cp, ok := refCheckpoint(&subj, compass)
	if !ok {
		return v
	}
	v.RefOK = true
	v.CP = hex.EncodeToString(cp)
	if e, ok := m.archive[v.CP]; ok {
		v.Issued = true
		v.Entry = e
	}
	if addr, ok := refRecover(cp, ec.SigHex); ok {
		// the validator that has this address registered now (monitor's model of the registry, rekey.go)
		v.Addr = addr.Hex()
		if vi, ok := m.keys.holder[strings.ToLower(addr.Hex())]; ok {
			v.Signer = vi
		}
	}
	return v
}

func (m *mon) evidenceMsg(ec evCase) *skywaytypes.MsgSubmitBadSignatureEvidence {
	subj := cloneBatch(ec.Subject)
	anyv, err := codectypes.NewAnyWithValue(&subj)
	if err != nil {
		panic(err)
	}
	return &skywaytypes.MsgSubmitBadSignatureEvidence{Subject: anyv, Signature: ec.SigHex, ChainReferenceId: ec.ChainRef, Metadata: world.Meta(ec.Sender)}
}

func (m *mon) senderClass(a *chain.Account, ver verdict) string {
	vi := m.valIdx(a)
	switch {
	case vi < 0:
		return "user"
	case vi == ver.Signer:
		return "signer-itself"
	}
	return "other-validator"
}

// judge decides one evidence submission from the jailed flags before/after and the reference verdict.
func (m *mon) judge(ec evCase, ver verdict, before, after []bool, accepted bool, errText string) {
	m.rec.Eval(1)
	var newly []int
	for i := range before {
		if !before[i] && after[i] {
			newly = append(newly, i)
		}
	}
	outcome := "rejected"
	if accepted {
		outcome = "accepted-no-jail"
	}
	wit := func(extra map[string]any) map[string]any {
		w := map[string]any{"height": m.c.Height, "mode": ec.Mode, "kind": ec.Kind, "stage_of_signed_checkpoint": ec.Stage, "batch_state_at_submission": ec.State,
			"chain_reference_id": ec.ChainRef, "submitter": ec.Sender.Name, "signature": ec.SigHex, "subject": ec.Subject,
			"reference_checkpoint": ver.CP, "checkpoint_issued_by_chain": ver.Issued, "handler_error": errText}
		if ver.Entry != nil {
			w["checkpoint_first_seen_at_height"] = ver.Entry.FirstSeen
			w["checkpoint_batch"] = ver.Entry.Key
		}
		if ver.Signer >= 0 {
			w["signed_by_validator"] = m.w.Vals[ver.Signer].Name + " " + m.w.Vals[ver.Signer].ValBech()
		}
		m.actWitness(w, ec.ChainRef, ver.Entry)
		m.chainRefWitness(w, ec)
		m.keyWitness(w, ec, ver)
		for k, v := range extra {
			w[k] = v
		}
		return w
	}
	for _, i := range newly {
		name := m.w.Vals[i].Name + " " + m.w.Vals[i].ValBech()
		switch {
		case ver.Issued && (i == ver.Signer || (ec.Conf != nil && ec.Conf.Signer == i)):
			// the validator that made this signature over a checkpoint the chain issued (its key may have been replaced since)
			outcome = "VIOLATION-issued"
			stage := ver.Entry.Stage
			m.rec.Count("violations_jailed_for_issued_checkpoint:"+stage, 1)
			sig, under := "SubmitBadSignatureEvidence/jailed-signer-of-issued-checkpoint/stage="+stage, ""
			if ec.ChainRef != ver.Entry.Chain {
				// the evidence names another chain than the one the batch was built for
				sig += "/evidence-names-sibling-chain"
				under = fmt.Sprintf(" naming chain reference id %s", ec.ChainRef)
			}
			m.rec.Violation(sig,
				fmt.Sprintf("%s replayed %s's genuine signature over a checkpoint the chain issued (stage %s, batch %s, first seen at height %d) as bad-signature evidence%s at height %d (%s, batch now %s): the signer was jailed",
					ec.Sender.Name, m.w.Vals[i].Name, stage, ver.Entry.Key, ver.Entry.FirstSeen, under, m.c.Height, ec.Mode, ec.State),
				wit(map[string]any{"jailed": name}))
		case i != ver.Signer && m.isFormerHolder(i, ver.Addr):
			// the key that signed is one this validator had registered and replaced
			outcome = "VIOLATION-former-holder"
			now := "nobody has it registered"
			if ver.Signer >= 0 {
				now = m.w.Vals[ver.Signer].Name + " has it registered"
			}
			m.rec.Violation("SubmitBadSignatureEvidence/jailed-former-holder-of-retired-key",
				fmt.Sprintf("bad-signature evidence (%s, %s) jailed %s for a signature by %s, a key it replaced at height %d (its registered key is %s; %s)",
					ec.Kind, ec.Mode, name, ver.Addr, m.replacedAt(i, ver.Addr), m.keys.cur[i], now),
				wit(map[string]any{"jailed": name}))
		case i != ver.Signer:
			outcome = "VIOLATION-non-signer"
			m.rec.Violation("SubmitBadSignatureEvidence/jailed-validator-whose-key-did-not-sign",
				fmt.Sprintf("bad-signature evidence (%s, %s) jailed %s although the signature is not by its registered key over the subject's checkpoint", ec.Kind, ec.Mode, name),
				wit(map[string]any{"jailed": name}))
		default:
			outcome = "jailed-bad-signer"
			m.rec.Count("control_bad_sig_jailed", 1)
			m.rec.Count("control_bad_sig_jailed:"+ec.Mode, 1)
		}
	}
	// control: a registered validator key over a never-issued checkpoint must jail
	if ver.RefOK && !ver.Issued && ver.Signer >= 0 && !before[ver.Signer] && !after[ver.Signer] && strings.HasPrefix(ec.Kind, "bad:") {
		if why := m.keyUnsettled(ver.Signer, ec.ChainRef); why != "" {
			// the registration is not settled (released from jail and not in a snapshot yet / key just replaced):
			// the statement allows either outcome, the control is not demanded (rekey.go)
			outcome = "control-not-demanded"
			m.rec.Count("control_not_demanded:"+why, 1)
		} else {
			outcome = "CONTROL-FAILED"
			m.rec.Count("control_bad_sig_not_jailed", 1)
			m.rec.Inconclusive(fmt.Sprintf("control failed: evidence with a signature by %s over a never-issued checkpoint (%s, %s) did not jail (handler: %s) - replay verdicts would be vacuous",
				m.w.Vals[ver.Signer].Name, ec.Kind, ec.Mode, errText))
		}
	}
	if ver.Issued && ver.Signer < 0 && ec.Conf != nil && ver.Entry == ec.Conf.Entry && m.isFormerHolder(ec.Conf.Signer, ver.Addr) {
		// a genuine signature over an issued checkpoint, made with a key its signer has replaced since
		if before[ec.Conf.Signer] {
			m.rec.Count("replay_signer_already_jailed", 1)
		} else {
			m.rec.Count("replay_tried_key_replaced_since:"+ec.Mode+"/signed="+ver.Entry.Stage, 1)
		}
	}
	if ver.Issued && ver.Signer >= 0 {
		m.rec.Count(fmt.Sprintf("replay_tried:%s/signed=%s/now=%s", ec.Mode, ver.Entry.Stage, ec.State), 1)
		if before[ver.Signer] {
			m.rec.Count("replay_signer_already_jailed", 1)
		} else {
			// non-vacuous replays by the activation state the checkpoint was issued in / the chain is in now
			m.rec.Count("replay_tried_activation:issued-in="+ver.Entry.Act+"/signed="+ver.Entry.Stage, 1)
			m.rec.Count("replay_tried_activation:issued-in="+ver.Entry.Act+"/now="+m.actState(ec.ChainRef), 1)
		}
	}
	m.noteChainRef(ec, before)
	keyKey := m.noteRetired(ec, before, after)
	m.rec.Count("evidence_"+ec.Mode+":"+strings.SplitN(ec.Kind, ":", 2)[0], 1)
	actKey := ""
	if len(m.acts) > 0 {
		// histories that re-activate chains: the activation state is part of the tuple
		actKey = "|act=" + m.actState(ec.ChainRef)
		if ver.Entry != nil {
			actKey += "|issued-in=" + ver.Entry.Act
		}
	}
	m.rec.Distinct(fmt.Sprintf("ev|%s|%s|%s|%s|%s|%s|issued=%v|signer=%v%s%s", ec.Mode, ec.Kind, ec.Stage, ec.State, m.senderClass(ec.Sender, ver), outcome, ver.Issued, ver.Signer >= 0, actKey, keyKey))
	if m.nSample < 2 && ver.Issued && ver.Signer >= 0 {
		m.nSample++
		m.rec.Sample(map[string]any{"evidence_replay": map[string]any{"height": m.c.Height, "mode": ec.Mode, "kind": ec.Kind, "signed_stage": ec.Stage, "batch_now": ec.State,
			"submitter": ec.Sender.Name, "signer": m.w.Vals[ver.Signer].Name, "checkpoint": ver.CP, "outcome": outcome, "handler_error": firstLine(errText)}})
	}
}

// submitOnFork runs the real handler on a throw-away fork of the current state (with the
// atomicity of a transaction) and judges the outcome.
func (m *mon) submitOnFork(ec evCase) {
	c := m.c
	ec.Mode = "fork"
	ver := m.refVerdict(ec)
	msg := m.evidenceMsg(ec)
	m.rec.Op(map[string]any{"h": c.Height, "op": "fork-evidence", "kind": ec.Kind, "actor": ec.Sender.Name, "chain": ec.ChainRef, "cp": ver.CP, "issued": ver.Issued, "signer": ver.Signer})
	fork := c.Fork(c.Height+1, c.Time.Add(2*time.Second))
	before := m.jailedFlags(fork)
	cctx, write := fork.CacheContext()
	h := c.App.MsgServiceRouter().Handler(msg)
	var err error
	func() {
		defer func() {
			if e := recover(); e != nil {
				err = fmt.Errorf("PANIC: %v\n%s", e, debug.Stack())
			}
		}()
		_, err = h(cctx, msg)
	}()
	if err == nil {
		write()
	}
	after := m.jailedFlags(fork)
	et := ""
	if err != nil {
		et = firstLine(err.Error())
	}
	m.rec.Count("replay_fork", 1)
	m.judge(ec, ver, before, after, err == nil, et)
}

func (m *mon) stateOf(e *cpEntry) string {
	if bt := m.tracks[e.Key]; bt != nil {
		return bt.state
	}
	return "unknown"
}

func (m *mon) anyAccount() *chain.Account {
	if m.r.Intn(2) == 0 {
		return m.w.Users[m.r.Intn(len(m.w.Users))]
	}
	return m.w.Vals[m.r.Intn(len(m.w.Vals))]
}

// replayCase builds the evidence a replayer makes out of a genuine signature: the batch as the
// chain stored it when it was signed, optionally in an equivalent spelling.
func (m *mon) replayCase(cf *confirmation, variant int) evCase {
	ec := evCase{Subject: cloneBatch(cf.Entry.Subject), SigHex: cf.SigHex, ChainRef: cf.Entry.Chain, Kind: "replay", Stage: cf.Entry.Stage, State: m.stateOf(cf.Entry), Conf: cf}
	switch variant {
	case 1: // fields that are not part of the checkpoint
		ec.Kind = "replay-equivalent:non-signed-fields"
		ec.Subject.PalomaBlockCreated += 7
		ec.Subject.BytesToSign = []byte{1, 2, 3}
		ec.Subject.Assignee = "somebody"
		ec.Subject.ChainReferenceId = "whatever"
	case 2: // the dummy estimate spelled out / left out
		if ec.Subject.GasEstimate == 0 {
			ec.Kind = "replay-equivalent:dummy-estimate-explicit"
			ec.Subject.GasEstimate = dummyGasEstimate
		} else if ec.Subject.GasEstimate == dummyGasEstimate {
			ec.Kind = "replay-equivalent:dummy-estimate-implicit"
			ec.Subject.GasEstimate = 0
		}
	case 3: // 0x-prefixed signature
		ec.Kind = "replay-equivalent:0x-signature"
		ec.SigHex = "0x" + ec.SigHex
	case 4: // legacy v = 27/28
		if bz, err := hex.DecodeString(ec.SigHex); err == nil && len(bz) == 65 && bz[64] < 2 {
			bz[64] += 27
			ec.SigHex = hex.EncodeToString(bz)
			ec.Kind = "replay-equivalent:v27"
		}
	}
	return ec
}

// pickConf draws a signature, preferring signers that can still be jailed.
func (m *mon) pickConf() *confirmation {
	var cf *confirmation
	for try := 0; try < 4; try++ {
		cf = m.confs[m.r.Intn(len(m.confs))]
		if !m.cur.jailed[cf.Signer] {
			break
		}
	}
	return cf
}

func (m *mon) replayOnFork(cf *confirmation, why string) {
	ec := m.replayCase(cf, []int{0, 0, 0, 1, 2, 3, 4}[m.r.Intn(7)])
	ec.Sender = m.anyAccount()
	if m.r.Intn(6) == 0 {
		ec.Sender = m.w.Vals[cf.Signer]
	}
	m.submitOnFork(ec)
}

var deadAddr = "0x00000000000000000000000000000000DeaD0001"

// fabricate turns an issued batch into one the chain never issued.
func (m *mon) fabricate(e *cpEntry) (skywaytypes.OutgoingTxBatch, string) {
	return m.fabricateR(m.r, e)
}

func (m *mon) fabricateR(r *rand.Rand, e *cpEntry) (skywaytypes.OutgoingTxBatch, string) {
	s := cloneBatch(e.Subject)
	for try := 0; try < 8; try++ {
		s = cloneBatch(e.Subject)
		what := ""
		switch r.Intn(7) {
		case 0:
			what = "dest"
			s.Transactions[r.Intn(len(s.Transactions))].DestAddress = common.HexToAddress(deadAddr).Hex()
		case 1:
			what = "amount"
			i := r.Intn(len(s.Transactions))
			s.Transactions[i].Erc20Token.Amount = s.Transactions[i].Erc20Token.Amount.AddRaw(1)
		case 2:
			what = "nonce"
			s.BatchNonce += 100_000
		case 3:
			what = "timeout"
			s.BatchTimeout += 1
		case 4:
			what = "relayer"
			s.AssigneeRemoteAddress = common.HexToAddress(deadAddr).Bytes()
		case 5:
			what = "estimate"
			s.GasEstimate = 777
		case 6:
			what = "dropped-transfer"
			if len(s.Transactions) < 2 {
				continue
			}
			s.Transactions = s.Transactions[:len(s.Transactions)-1]
		}
		cp, ok := refCheckpoint(&s, m.infoID(e.Chain))
		if !ok {
			continue
		}
		if _, issued := m.archive[hex.EncodeToString(cp)]; issued {
			continue
		}
		return s, what
	}
	return s, ""
}

func (m *mon) randomEntry() *cpEntry {
	if len(m.archive) == 0 {
		return nil
	}
	keys := make([]string, 0, len(m.archive))
	for k := range m.archive {
		keys = append(keys, k)
	}
	sort.Strings(keys)
	return m.archive[keys[m.r.Intn(len(keys))]]
}

// hostileCase: evidence that is not a replay of a genuine signature.
func (m *mon) hostileCase() (evCase, bool) {
	r := m.r
	e := m.randomEntry()
	if e == nil {
		return evCase{}, false
	}
	ec := evCase{ChainRef: e.Chain, Stage: e.Stage, State: m.stateOf(e), Sender: m.anyAccount()}
	switch x := r.Intn(10); {
	case x < 5: // truly bad: validator key over a never-issued batch
		s, what := m.fabricate(e)
		if what == "" {
			return ec, false
		}
		vi := r.Intn(len(m.w.Vals))
		cp, _ := refCheckpoint(&s, m.infoID(e.Chain))
		ec.Subject, ec.Kind = s, "bad:"+what
		ec.SigHex = hex.EncodeToString(world.EthSign(m.w.Vals[vi].EthKey, cp))
	case x < 7: // a key that belongs to no validator
		s, what := m.fabricate(e)
		if what == "" {
			return ec, false
		}
		cp, _ := refCheckpoint(&s, m.infoID(e.Chain))
		ec.Subject, ec.Kind = s, "foreign-key"
		ec.SigHex = hex.EncodeToString(world.EthSign(m.w.Users[r.Intn(len(m.w.Users))].EthKey, cp))
	case x < 9: // a genuine signature glued to a different (fabricated) batch
		if len(m.confs) == 0 {
			return ec, false
		}
		cf := m.confs[r.Intn(len(m.confs))]
		s, what := m.fabricate(cf.Entry)
		if what == "" {
			return ec, false
		}
		ec.Subject, ec.Kind, ec.SigHex, ec.ChainRef, ec.Stage, ec.State = s, "mismatch", cf.SigHex, cf.Entry.Chain, cf.Entry.Stage, m.stateOf(cf.Entry)
	default: // a genuine signature presented for another chain
		if len(m.confs) == 0 || len(m.w.Chains) < 2 {
			return ec, false
		}
		cf := m.confs[r.Intn(len(m.confs))]
		other := m.w.Chains[0]
		if other == cf.Entry.Chain {
			other = m.w.Chains[1]
		}
		ec.Subject, ec.Kind, ec.SigHex, ec.ChainRef, ec.Stage, ec.State = cloneBatch(cf.Entry.Subject), "wrong-chain", cf.SigHex, other, cf.Entry.Stage, m.stateOf(cf.Entry)
		ec.Conf = cf
	}
	return ec, true
}

// forkRound: after every block, replays and hostile evidence on forks of the new state.
func (m *mon) forkRound() {
	r := m.r
	if n := len(m.confs); n > 0 {
		k := 3
		if n < k {
			k = n
		}
		for i := 0; i < k; i++ {
			m.replayOnFork(m.pickConf(), "random")
		}
		// recent signatures are the interesting ones right after an election
		for i := n - 1; i >= 0 && i >= n-2; i-- {
			if r.Intn(2) == 0 {
				m.replayOnFork(m.confs[i], "recent")
			}
		}
	}
	if r.Intn(5) == 0 {
		if ec, ok := m.hostileCase(); ok {
			m.submitOnFork(ec)
		}
	}
	// genuine signatures under chain reference ids that are not the batch's (own random stream)
	m.crossRefRound()
	// fabricated batches signed with keys validators have retired (own random stream)
	m.rekeyRound()
}

// realEvidenceOps: at most one real evidence transaction per block.
func (m *mon) realEvidenceOps(h int64) {
	r := m.r
	var ec evCase
	have := false
	// scheduled replays of accepted confirmations
	var keep []scheduledReplay
	for _, s := range m.sched {
		if !have && s.at <= h {
			ec = m.replayCase(s.conf, []int{0, 0, 1, 2}[r.Intn(4)])
			ec.Sender = m.anyAccount()
			have = true
			continue
		}
		keep = append(keep, s)
	}
	m.sched = keep
	if !have && len(m.confs) > 0 && r.Intn(100) < 4 {
		ec = m.replayCase(m.pickConf(), r.Intn(5))
		ec.Sender = m.anyAccount()
		have = true
	}
	if !have && r.Intn(100) < 3 {
		ec, have = m.hostileCase()
		if m.p.Calm && strings.HasPrefix(ec.Kind, "bad:") {
			// calm histories: no control jailings by real transactions (they stay on the forks), so
			// that the snapshot keeps the composition the stake vector was made for
			have = false
		}
	}
	if !have {
		// a genuine signature under a chain reference id that is not the batch's (own random stream)
		ec, have = m.crossRefReal()
	}
	if !have {
		// a never-issued batch signed with a key some validator has retired (own random stream)
		ec, have = m.rekeyReal()
	}
	if !have {
		return
	}
	ec.Mode = "realtx"
	// the account must not have another tx in this block before (sequence bookkeeping is per block)
	ver := m.refVerdict(ec)
	pe := &pendingEvidence{ec: ec, ver: ver}
	if m.send(ec.Sender, "bad-signature-evidence", m.evidenceMsg(ec), nil) {
		m.pendEv = pe
		m.pendEv.ec.State = ec.State
		m.rec.Count("replay_realtx", 1)
	}
}

// ---------------------------------------------------------------------------------------------
// cross-chain messages: jobs, delivery, evidence plans

func (m *mon) jobOps(h int64) {
	r, w := m.r, m.w
	for ui, u := range w.Users {
		if !m.chance("prune", 9) {
			continue
		}
		ch := w.Chains[r.Intn(len(w.Chains))]
		id := fmt.Sprintf("job-%d-%s", ui, ch)
		if !m.jobs[id] {
			m.jobs[id] = true
			def, _ := json.Marshal(map[string]string{"abi": "[]", "address": fmt.Sprintf("0x%040x", 0xBEEF00+ui)})
			pay, _ := json.Marshal(map[string]string{"hexPayload": fmt.Sprintf("%x", []byte{byte(ui), 1, 2, 3})})
			job := &schedulertypes.Job{ID: id, Routing: schedulertypes.Routing{ChainType: "evm", ChainReferenceID: ch}, Definition: def, Payload: pay, IsPayloadModifiable: true}
			m.send(u, "create-job", &schedulertypes.MsgCreateJob{Job: job, Metadata: world.Meta(u)}, func(res chain.TxResult) {
				if !res.OK() {
					delete(m.jobs, id)
				}
			})
			continue
		}
		pay, _ := json.Marshal(map[string]string{"hexPayload": fmt.Sprintf("%x", []byte{byte(h), byte(h >> 8), byte(r.Intn(256))})})
		m.send(u, "execute-job", &schedulertypes.MsgExecuteJob{JobID: id, Payload: pay, Metadata: world.Meta(u)}, nil)
	}
}

func pruneHeight(addedAt int64) int64 {
	hp := (addedAt + 301 + 49) / 50 * 50
	return hp
}

// refreshShares: planning works on the shares of the current snapshot (validators outside the
// snapshot - jailed ones - count nothing and cannot attest anyway).
func (m *mon) refreshShares() {
	if m.cur.snap == nil {
		return
	}
	idx := map[string]int{}
	for i, v := range m.w.Vals {
		idx[v.ValBech()] = i
	}
	st := make([]int64, len(m.w.Vals))
	tot := int64(0)
	for _, sv := range m.cur.snap.Validators {
		if i, ok := idx[sdk.ValAddress(sv.Address).String()]; ok && sv.ShareCount.IsInt64() {
			st[i] = sv.ShareCount.Int64()
			tot += st[i]
		}
	}
	if tot > 0 {
		m.stake, m.total = st, tot
	}
}

// justBelow returns the subset with the largest share that is still below num/den of the total.
func (m *mon) justBelow(num, den int64) ([]int, bool) {
	n := len(m.stake)
	best := int64(-1)
	var bestPick []int
	for mask := 1; mask < 1<<n; mask++ {
		sum := int64(0)
		var pick []int
		ok := true
		for i := 0; i < n; i++ {
			if mask&(1<<i) != 0 {
				if m.stake[i] == 0 {
					ok = false
				}
				sum += m.stake[i]
				pick = append(pick, i)
			}
		}
		if ok && sum*den < m.total*num && sum > best {
			best, bestPick = sum, pick
		}
	}
	return bestPick, best > 0
}

// subset picks validators whose stake share lies in [lo, hi] (per-mille of the total, inclusive).
func (m *mon) subset(loPM, hiPM int64) ([]int, bool) {
	n := len(m.stake)
	for try := 0; try < 60; try++ {
		perm := m.r.Perm(n)
		var pick []int
		sum := int64(0)
		for _, i := range perm {
			if m.stake[i] > 0 && (sum+m.stake[i])*1000 <= hiPM*m.total {
				pick = append(pick, i)
				sum += m.stake[i]
			}
			if sum*1000 >= loPM*m.total && m.r.Intn(2) == 0 {
				break
			}
		}
		if sum*1000 >= loPM*m.total && sum*1000 <= hiPM*m.total && len(pick) > 0 {
			return pick, true
		}
	}
	return nil, false
}

func (m *mon) exactShare(num, den int64) ([]int, bool) {
	// subsets whose stake is exactly num/den of the total (small n: enumerate)
	n := len(m.stake)
	var hits [][]int
	for mask := 1; mask < 1<<n; mask++ {
		sum := int64(0)
		var pick []int
		ok := true
		for i := 0; i < n; i++ {
			if mask&(1<<i) != 0 {
				if m.stake[i] == 0 {
					ok = false
				}
				sum += m.stake[i]
				pick = append(pick, i)
			}
		}
		if ok && sum*den == m.total*num {
			hits = append(hits, pick)
		}
	}
	if len(hits) == 0 {
		return nil, false
	}
	return hits[m.r.Intn(len(hits))], true
}

func (m *mon) planMessage(q qmsg, h int64) *msgTrack {
	r := m.r
	mt := &msgTrack{key: fmt.Sprintf("%s|%d", q.queue, q.id), queue: q.queue, id: q.id, addedAt: q.addedAt, recorded: map[int]int{},
		estSent: map[int]bool{}, signSent: map[int]bool{}}
	mt.estimate = r.Intn(10) < 6
	mt.sign = mt.estimate && r.Intn(2) == 0
	for i, ch := range m.w.Chains {
		if strings.Contains(q.queue, "/"+ch+"/") || strings.Contains(q.queue, ch) {
			mt.chain, mt.chainIdx = ch, i
		}
	}
	hp := pruneHeight(q.addedAt)
	when := func() int64 {
		switch r.Intn(8) {
		case 0:
			return hp // in the prune block itself
		case 1:
			return hp - 1
		}
		lo := h + 1
		if hp <= lo {
			return lo
		}
		return lo + int64(r.Intn(int(hp-lo)))
	}
	mt.deliver = []string{"public", "public", "public", "error"}[r.Intn(4)]
	mt.deliverAt = h + 1 + int64(r.Intn(40))
	m.refreshShares()
	classes := []string{"none", "below10", "just-below10", "just-below10", "exact10", "exact10", "low", "low", "mid", "mid", "split", "split", "undelivered-evidence", "undelivered-none",
		"redelivered", "redelivered", "redelivered", "edge10", "edge10", "edge10"}
	if m.p.Calm {
		classes = append(classes, "edge10", "edge10", "edge10")
	}
	mt.class = classes[r.Intn(len(classes))]
	add := func(vals []int, group int) {
		for _, v := range vals {
			mt.ev = append(mt.ev, planEv{Val: v, Group: group, At: when()})
		}
	}
	switch mt.class {
	case "none":
	case "below10":
		if s, ok := m.subset(1, 99); ok {
			add(s, 0)
		} else {
			mt.class = "none"
		}
	case "just-below10":
		if s, ok := m.justBelow(1, 10); ok {
			add(s, 0)
		} else {
			mt.class = "none"
		}
	case "exact10":
		if s, ok := m.exactShare(1, 10); ok {
			add(s, 0)
		} else if s, ok := m.subset(100, 130); ok {
			mt.class = "low"
			add(s, 0)
		}
	case "low":
		if s, ok := m.subset(100, 350); ok {
			add(s, r.Intn(2))
		}
	case "mid":
		if s, ok := m.subset(360, 660); ok {
			for _, v := range s {
				mt.ev = append(mt.ev, planEv{Val: v, Group: 0, At: when()})
			}
		}
	case "split":
		// two camps, together >= 2/3, none of them alone
		perm := r.Perm(len(m.stake))
		var a, b int64
		for _, i := range perm {
			if m.stake[i] == 0 {
				continue
			}
			g := 0
			if a > b {
				g = 1
			}
			if g == 0 && (a+m.stake[i])*3 >= m.total*2 {
				g = 1
			}
			if g == 1 && (b+m.stake[i])*3 >= m.total*2 {
				continue
			}
			if g == 0 {
				a += m.stake[i]
			} else {
				b += m.stake[i]
			}
			mt.ev = append(mt.ev, planEv{Val: i, Group: g, At: when()})
			if (a+b)*3 >= m.total*2 && r.Intn(2) == 0 {
				break
			}
		}
	case "undelivered-evidence":
		mt.deliver = "none"
		if s, ok := m.subset(50, 600); ok {
			add(s, 0)
		}
	case "undelivered-none":
		mt.deliver = "none"
	case "redelivered":
		m.planRedelivered(mt, hp)
	case "edge10":
		m.planEdge(mt, hp, h)
	}
	return mt
}

func (m *mon) proof(mt *msgTrack, group int) *codectypes.Any {
	k := fmt.Sprintf("%s|%d", mt.key, group)
	if p, ok := m.proofs[k]; ok {
		return p
	}
	if group == groupErrorProof {
		// what a pigeon attests when the relayer reported a failed execution
		anyv, err := codectypes.NewAnyWithValue(&evmtypes.SmartContractExecutionErrorProof{ErrorMessage: fmt.Sprintf("execution reverted: message %d", mt.id)})
		if err != nil {
			panic(err)
		}
		m.proofs[k] = anyv
		return anyv
	}
	to := common.HexToAddress(fmt.Sprintf("0x%040x", 0xC0DE000+mt.chainIdx))
	rtx, err := world.NewRemoteTx(m.proofKey, uint64(1000+mt.chainIdx), mt.id*10+uint64(group), &to, []byte{byte(group), 0xca, 0xfe}, 1)
	if err != nil {
		panic(err)
	}
	pr, err := rtx.Proof(false)
	if err != nil {
		panic(err)
	}
	anyv, err := codectypes.NewAnyWithValue(pr)
	if err != nil {
		panic(err)
	}
	m.proofs[k] = anyv
	return anyv
}

func (m *mon) pigeonMessageOps(h int64) {
	r, w := m.r, m.w
	// plan newly seen turnstone messages
	var keys []string
	for k := range m.cur.msgs {
		keys = append(keys, k)
	}
	sort.Strings(keys)
	for _, k := range keys {
		q := m.cur.msgs[k]
		if _, ok := m.msgs[k]; ok || !q.turnstone {
			continue
		}
		mt := m.planMessage(q, h)
		m.msgs[k] = mt
		m.rec.Count("messages_planned:"+mt.class, 1)
		dbg("h=%d plan msg %s class=%s deliver=%s@%d ev=%v prune@%d", h, k, mt.class, mt.deliver, mt.deliverAt, mt.ev, pruneHeight(q.addedAt))
	}
	var mkeys []string
	for k := range m.msgs {
		mkeys = append(mkeys, k)
	}
	sort.Strings(mkeys)
	for _, k := range mkeys {
		mt := m.msgs[k]
		if mt.done {
			continue
		}
		q, live := m.cur.msgs[k]
		if !live {
			mt.done = true
			continue
		}
		// the ordinary life of a message: gas estimates -> election -> signatures
		if mt.estimate && q.needsGas && q.gasEst == 0 {
			for vi, v := range w.Vals {
				if !mt.estSent[vi] && !m.cur.jailed[vi] && r.Intn(10) < 3 {
					mt.estSent[vi] = true
					m.outbox[vi] = append(m.outbox[vi], outMsg{notBefore: h, kind: "msg-gas-estimate", msg: world.MsgEstimate(v, mt.queue, mt.id, uint64(250_000+r.Intn(5)*10_000))})
				}
			}
		}
		if mt.sign && (q.gasEst > 0 || !q.needsGas) {
			for vi, v := range w.Vals {
				if !mt.signSent[vi] && !m.cur.jailed[vi] && r.Intn(10) < 3 {
					mt.signSent[vi] = true
					if sm, err := world.MsgSign(m.c, v, mt.queue, mt.id); err == nil && len(sm.SignedMessages) > 0 {
						m.outbox[vi] = append(m.outbox[vi], outMsg{notBefore: h, kind: "msg-sign", msg: sm})
					}
				}
			}
		}
		if mt.deliver != "none" && mt.delivered == "" && h >= mt.deliverAt {
			vi := r.Intn(len(w.Vals))
			v := w.Vals[vi]
			data := make([]byte, 32)
			r.Read(data)
			mt := mt
			if mt.deliver == "public" {
				sid := uint64(0)
				if m.cur.snap != nil {
					sid = m.cur.snap.Id
				}
				m.outbox[vi] = append(m.outbox[vi], outMsg{notBefore: h, kind: "public-access-data", msg: world.MsgPublicAccess(v, mt.queue, mt.id, data, sid), cb: func(res chain.TxResult) {
					if res.OK() && mt.delivered == "" {
						mt.delivered = "public"
					}
				}})
			} else {
				m.outbox[vi] = append(m.outbox[vi], outMsg{notBefore: h, kind: "error-data", msg: world.MsgErrorData(v, mt.queue, mt.id, data), cb: func(res chain.TxResult) {
					if res.OK() && mt.delivered == "" {
						mt.delivered = "error"
						mt.relayer = vi
					}
				}})
			}
			mt.deliverAt = h + 3 // retry (another validator) if it did not go through
		}
		m.redeliverOps(mt, q, h)
		m.edgeOps(mt, h)
		var keep []planEv
		for _, pe := range mt.ev {
			// pigeons attest what the message carries: phase 1 waits for the error report, phase 2 for the transaction
			if pe.At > h || (pe.Phase == 1 && !q.hasErr) || (pe.Phase == 2 && !q.hasPub) {
				keep = append(keep, pe)
				continue
			}
			pe, mt := pe, mt
			v := w.Vals[pe.Val]
			msg := &consensustypes.MsgAddEvidence{Proof: m.proof(mt, pe.Group), MessageID: mt.id, QueueTypeName: mt.queue, Metadata: world.Meta(v)}
			if pe.Phase == 1 {
				mt.pendP1++
			}
			m.outbox[pe.Val] = append(m.outbox[pe.Val], outMsg{notBefore: h, kind: "add-evidence", msg: msg, cb: func(res chain.TxResult) {
				if pe.Phase == 1 {
					mt.pendP1--
				}
				if res.OK() {
					mt.recorded[pe.Val] = pe.Group
					mt.noteAccepted(pe)
				}
			}})
		}
		mt.ev = keep
	}
}

// ---------------------------------------------------------------------------------------------
// per-block judgement: who became jailed and why

var reMsgID = regexp.MustCompile(`contentious message (\d+)`)

func (m *mon) jailReason(vi int) string {
	res, err := m.c.App.ValsetKeeper.GetValidatorJailReason(m.c.Ctx(), &valsettypes.QueryGetValidatorJailReasonRequest{ValAddress: m.w.Vals[vi].ValAddr()})
	if err != nil || res == nil {
		return ""
	}
	return res.Reason
}

type prunedMsg struct {
	q        qmsg
	mt       *msgTrack
	attested map[int]bool
	votes    sdkmath.Int
	total    sdkmath.Int
	below10  bool
	bucket   string
	stored   map[int]bool // evidence on the stored message at the boundary before the prune block
	// error report replaced by a transaction report: shares that attested before / after (else "")
	redelivered string
	edge        string      // position relative to the 10 % floor when within one share of it (floorEdge)
	x10         sdkmath.Int // 10*votes - total
}

func (m *mon) checkBlock(pre, post obs, br *chain.BlockResult) {
	h := post.h
	var newly []int
	for i := range pre.jailed {
		if !pre.jailed[i] && post.jailed[i] {
			newly = append(newly, i)
		}
		if pre.jailed[i] && !post.jailed[i] {
			m.rec.Count("validators_released", 1)
		}
	}
	// (1) a real evidence transaction in this block
	if m.pendEv != nil {
		pe := m.pendEv
		accepted := false
		errText := ""
		for _, s := range m.sent {
			if s.kind == "bad-signature-evidence" && s.idx < len(br.Txs) {
				accepted = br.Txs[s.idx].OK()
				errText = firstLine(br.Txs[s.idx].Log)
			}
		}
		m.judge(pe.ec, pe.ver, pre.jailed, post.jailed, accepted, errText)
		return
	}
	// (2) pruning
	if h%50 == 0 {
		m.checkPrune(pre, post, newly)
		return
	}
	// (3) nothing in this block may jail anybody
	for _, i := range newly {
		m.rec.Inconclusive(fmt.Sprintf("validator %s jailed at height %d by something outside the property's scope (reason %q)", m.w.Vals[i].Name, h, m.jailReason(i)))
		m.stopped = true
	}
}

func (m *mon) checkPrune(pre, post obs, newly []int) {
	h := post.h
	// messages that are old enough at this height are pruned by the end blocker
	var pruned []*prunedMsg
	var keys []string
	for k := range pre.msgs {
		keys = append(keys, k)
	}
	sort.Strings(keys)
	valIdxByAddr := map[string]int{}
	for i, v := range m.w.Vals {
		valIdxByAddr[v.ValBech()] = i
	}
	for _, k := range keys {
		q := pre.msgs[k]
		if h-q.addedAt <= 300 {
			continue
		}
		if _, still := post.msgs[k]; still {
			m.rec.Count("prune_due_but_still_queued", 1)
			continue
		}
		pm := &prunedMsg{q: q, mt: m.msgs[k], attested: map[int]bool{}, votes: sdkmath.ZeroInt(), total: sdkmath.ZeroInt()}
		// evidence sets: recorded from accepted MsgAddEvidence transactions (incl. this block's)
		if pm.mt != nil {
			for vi := range pm.mt.recorded {
				pm.attested[vi] = true
			}
			pm.mt.done = true
			if pm.mt.delivered != "" {
				pm.q.delivered = pm.mt.delivered
			}
		}
		// cross-check with what the chain had stored at the boundary before
		stored := map[int]bool{}
		for _, a := range q.evidence {
			if vi, ok := valIdxByAddr[a]; ok {
				stored[vi] = true
			}
		}
		for vi := range stored {
			if !pm.attested[vi] {
				pm.attested[vi] = true
				m.rec.Count("prune_evidence_only_in_store", 1)
			}
		}
		pm.stored = stored
		shares := map[int]int64{}
		if pre.snap != nil {
			pm.total = pre.snap.TotalShares
			for _, sv := range pre.snap.Validators {
				vi, ok := valIdxByAddr[sdk.ValAddress(sv.Address).String()]
				if ok && sv.ShareCount.IsInt64() {
					shares[vi] = sv.ShareCount.Int64()
				}
				if ok && pm.attested[vi] {
					pm.votes = pm.votes.Add(sv.ShareCount)
				}
			}
		}
		m.noteRedelivered(pm, shares)
		pm.below10 = pm.votes.MulRaw(10).LT(pm.total)
		m.noteFloorEdge(pm)
		switch {
		case pm.votes.IsZero():
			pm.bucket = "0%"
		case pm.below10:
			pm.bucket = "<10%"
		case pm.votes.MulRaw(10).Equal(pm.total):
			pm.bucket = "=10%"
		case pm.votes.MulRaw(100).LT(pm.total.MulRaw(35)):
			pm.bucket = "10-35%"
		case pm.votes.MulRaw(3).LT(pm.total.MulRaw(2)):
			pm.bucket = "35-66%"
		default:
			pm.bucket = ">=2/3-split"
		}
		pruned = append(pruned, pm)
	}
	if len(pruned) == 0 {
		for _, i := range newly {
			m.rec.Inconclusive(fmt.Sprintf("validator %s jailed at height %d although no message was pruned (reason %q)", m.w.Vals[i].Name, h, m.jailReason(i)))
			m.stopped = true
		}
		return
	}
	newlySet := map[int]bool{}
	for _, i := range newly {
		newlySet[i] = true
	}
	allBelow := true
	for _, pm := range pruned {
		dk := pm.q.delivered
		if dk == "" {
			dk = "undelivered"
		}
		m.rec.Count("prune_events", 1)
		m.rec.Count("prune_events:"+dk+"/evidence="+pm.bucket, 1)
		if !pm.below10 {
			allBelow = false
		}
		m.rec.Eval(int64(len(pm.attested)) + 1)
		m.rec.Distinct(fmt.Sprintf("prune|%s|%s|%s%s|att=%d|jailed=%d|n=%d", dk, pm.redelivered, pm.bucket, edgeKey(pm), len(pm.attested), len(newly), len(pruned)))
		dbg("h=%d pruned %s|%d delivered=%s bucket=%s attested=%v votes=%s/%s newly=%v", h, pm.q.queue, pm.q.id, dk, pm.bucket, pm.attested, pm.votes, pm.total, newly)
	}
	if len(newly) == 0 {
		return
	}
	snapChanged := pre.snap == nil || post.snap == nil || pre.snap.Id != post.snap.Id
	_ = snapChanged
	desc := func(pm *prunedMsg) map[string]any {
		var att []string
		for vi := range pm.attested {
			att = append(att, m.w.Vals[vi].Name)
		}
		sort.Strings(att)
		d := map[string]any{"queue": pm.q.queue, "id": pm.q.id, "added_at": pm.q.addedAt, "delivered": pm.q.delivered, "evidence_from": att,
			"attested_shares": pm.votes.String(), "snapshot_total_shares": pm.total.String(), "attested_shares_x10_minus_total": pm.x10.String(), "bucket": pm.bucket,
			"evidence_on_stored_message_before_prune_block": names(m, pm.stored)}
		if pm.redelivered != "" {
			d["evidence_accepted_after_error_report"] = names(m, pm.mt.before)
			d["evidence_accepted_after_public_access_data"] = names(m, pm.mt.after)
		}
		return d
	}
	var all []map[string]any
	for _, pm := range pruned {
		all = append(all, desc(pm))
	}
	for _, i := range newly {
		m.rec.Eval(int64(len(pruned)))
		reason := m.jailReason(i)
		name := m.w.Vals[i].Name + " " + m.w.Vals[i].ValBech()
		// the messages this jailing can be about: the one the chain names, else any pruned one
		cands := pruned
		named := false
		if mm := reMsgID.FindStringSubmatch(reason); mm != nil {
			id, _ := strconv.ParseUint(mm[1], 10, 64)
			var c2 []*prunedMsg
			for _, pm := range pruned {
				if pm.q.id == id {
					c2 = append(c2, pm)
				}
			}
			if len(c2) > 0 {
				cands, named = c2, true
			}
		}
		explained := false
		suppliedAll, belowAll := true, true
		for _, pm := range cands {
			if !pm.attested[i] && !pm.below10 {
				explained = true
			}
			if !pm.attested[i] {
				suppliedAll = false
			}
			if !pm.below10 {
				belowAll = false
			}
		}
		wit := map[string]any{"height": h, "jailed": name, "jail_reason_on_chain": reason, "reason_names_pruned_message": named, "pruned_messages": all,
			"snapshot_id_before": snapID(pre.snap), "snapshot_id_after": snapID(post.snap)}
		switch {
		case explained:
			m.rec.Count("prune_legit_jailings", 1)
		case suppliedAll:
			m.rec.Violation("PruneJob/jailed-validator-that-supplied-evidence",
				fmt.Sprintf("message pruning at height %d jailed %s although it had supplied evidence for the pruned message(s) it is blamed for", h, name), wit)
		case belowAll || allBelow:
			m.rec.Violation("PruneJob/jailed-although-less-than-10pct-of-shares-attested",
				fmt.Sprintf("message pruning at height %d jailed %s although fewer than 10%% of the snapshot shares had attested", h, name), wit)
		default:
			// every candidate either has the validator's evidence or is below the floor
			m.rec.Violation("PruneJob/jailed-validator-without-a-permitting-message",
				fmt.Sprintf("message pruning at height %d jailed %s: for every pruned message it either supplied evidence or fewer than 10%% attested", h, name), wit)
		}
	}
	if m.nSample < 3 {
		m.nSample++
		var j []string
		for _, i := range newly {
			j = append(j, m.w.Vals[i].Name)
		}
		m.rec.Sample(map[string]any{"prune": map[string]any{"height": h, "pruned": all, "jailed": j}})
	}
}

func snapID(s *valsettypes.Snapshot) uint64 {
	if s == nil {
		return 0
	}
	return s.Id
}
