package c13

// Genuine signatures replayed under every chain reference id the world knows (added after seed
// C13-f was missed, see NOTES.md).
//
// MsgSubmitBadSignatureEvidence carries a chain reference id chosen by the submitter; the handler
// overwrites the subject's own chain reference id with it and recomputes the checkpoint from the
// compass unique id of THAT chain. The checkpoint commits to the compass unique id, not to the
// chain reference id. Two things were missing for the class "a signature over a published
// checkpoint presented under another chain reference id":
//
//   - worlds: every chain had its own unique id (world.NewBridgeWorld: "compass-<ref>-1"), so the
//     checkpoint recomputed for a sibling chain never was the published one. A quarter of the
//     histories (half of those with two chains) now start after ONE deployment round that covered
//     all chains: a newer compass, activated on every chain with the SAME unique id through
//     EvmKeeper.ActivateChainReferenceID (the call the attested deployment flow ends in and the one
//     world.ActivateChain makes), before the first batch is built. Validators use one key on all
//     chains (world.ExtInfo), as before.
//   - replays: only the hostile kind "wrong-chain" (about 2 % of the blocks, any signer) named
//     another chain. Now every block (two-chain worlds; every 4th block otherwise) one archived
//     genuine signature - built stage and re-estimated stage alike, plain or in an equivalent
//     spelling - is replayed on a fork under a chain reference id that is NOT the batch's: the
//     sibling chain or a chain reference id paloma does not know; a sample goes through real
//     transactions.
//
// The oracle is unchanged (refVerdict/judge): the reference checkpoint of the subject is computed
// with the unique id the named chain's chain info carries (monitor's model); when it is a
// checkpoint the chain published, nobody may be jailed; otherwise only the validator whose
// registered key signed it; under an unknown chain reference id nobody. Own random stream: the
// main stream of a history is untouched.

import (
	"fmt"
	"math/rand"
	"strings"
)

const (
	sharedCompassID = "compass-round-2" // one deployment round, one unique id for all chains
	unknownChainRef = "gnosis-main"     // never added to paloma in any history

	relOwn           = "own-chain"
	relSiblingShared = "sibling-chain/same-unique-id"
	relSiblingOther  = "sibling-chain/different-unique-id"
	relUnknown       = "unknown-chain"
)

// Half of the two-chain histories (a quarter of all) live in a world whose chains share the
// compass unique id. Two-chain histories are those with (i+seed) odd (c13.go: NChains).
func hasSharedCompassID(seed int64, i int) bool {
	k := int64(i) + seed
	return ((k%4)+4)%4 == 1
}

// shareCompassIDs: one deployment round for all chains, right after bring-up (no batch exists
// yet: batches are built at heights = 0 mod 50 from transfers users send during the history).
func (m *mon) shareCompassIDs() bool {
	if !m.p.SharedCompassID || len(m.w.Chains) < 2 {
		return true
	}
	k := m.c.App.EvmKeeper
	ctx := m.c.Ctx()
	if bs, _ := m.c.App.SkywayKeeper.GetOutgoingTxBatches(ctx); len(bs) > 0 {
		m.rec.Inconclusive("shared compass id: batches exist before the deployment round")
		return false
	}
	old, err := k.GetLastCompassContract(ctx)
	if err != nil || old == nil {
		m.rec.Inconclusive(fmt.Sprintf("shared compass id: no compass contract on record: %v", err))
		return false
	}
	nsc, err := k.SaveNewSmartContract(ctx, old.GetAbiJSON(), old.GetBytecode())
	if err != nil {
		m.rec.Inconclusive("shared compass id: saving the compass of the deployment round failed: " + err.Error())
		return false
	}
	for i, ch := range m.w.Chains {
		addr := fmt.Sprintf("0x%040x", 0xC0DE200+i)
		m.rec.Op(map[string]any{"h": m.c.Height, "op": "activate-chain", "chain": ch, "kind": "deployment-round/shared-unique-id", "smart_contract_id": nsc.GetId(), "unique_id": sharedCompassID})
		if err := k.ActivateChainReferenceID(ctx, ch, nsc, addr, []byte(sharedCompassID)); err != nil {
			m.rec.Inconclusive("shared compass id: ActivateChainReferenceID failed: " + err.Error())
			return false
		}
		ci, err := k.GetChainInfo(m.c.Ctx(), ch)
		if err != nil || string(ci.GetSmartContractUniqueID()) != sharedCompassID || ci.GetActiveSmartContractID() != nsc.GetId() {
			m.rec.Inconclusive(fmt.Sprintf("shared compass id: chain info of %s does not carry the id of the deployment round (%q contract %d, err %v)",
				ch, string(ci.GetSmartContractUniqueID()), ci.GetActiveSmartContractID(), err))
			return false
		}
		// the monitor's record of the world: what checkpoints of this chain are made from
		m.w.Compass[ch] = sharedCompassID
	}
	m.sharedRound = nsc
	m.sharedOld = old
	m.rec.Count("worlds_with_shared_compass_unique_id", 1)
	return true
}

// refRelation: how the chain reference id named in the evidence relates to the chain the signed
// checkpoint was issued for (by the monitor's model of the unique ids at submission time).
func (m *mon) refRelation(named string, cf *confirmation) string {
	switch {
	case named == cf.Entry.Chain:
		return relOwn
	case m.w.Compass[named] == "":
		return relUnknown
	case m.infoID(named) == cf.Entry.InfoID:
		return relSiblingShared
	}
	return relSiblingOther
}

// crossConf draws a signature for a cross-reference replay: half of the time one of the most
// recent ones (right after a batch was built / an estimate elected), preferring signers that can
// still be jailed.
func (m *mon) crossConf() *confirmation {
	xr, n := m.xr, len(m.confs)
	var cf *confirmation
	for try := 0; try < 4; try++ {
		if xr.Intn(2) == 0 {
			k := 8
			if n < k {
				k = n
			}
			cf = m.confs[n-1-xr.Intn(k)]
		} else {
			cf = m.confs[xr.Intn(n)]
		}
		if !m.cur.jailed[cf.Signer] {
			break
		}
	}
	return cf
}

// crossCase: the evidence a replayer makes out of a genuine signature when it names another
// chain reference id than the batch's.
func (m *mon) crossCase() (evCase, bool) {
	xr := m.xr
	if len(m.confs) == 0 {
		return evCase{}, false
	}
	cf := m.crossConf()
	named := unknownChainRef
	if len(m.w.Chains) > 1 && xr.Intn(5) > 0 {
		var sib []string
		for _, ch := range m.w.Chains {
			if ch != cf.Entry.Chain {
				sib = append(sib, ch)
			}
		}
		named = sib[xr.Intn(len(sib))]
	}
	ec := m.replayCase(cf, []int{0, 0, 0, 1, 2, 3, 4}[xr.Intn(7)])
	ec.ChainRef = named
	ec.Rel = m.refRelation(named, cf)
	what := ""
	if i := strings.IndexByte(ec.Kind, ':'); i >= 0 {
		what = "/" + ec.Kind[i+1:]
	}
	ec.Kind = "replay-under-other-chain-ref:" + ec.Rel + what
	if xr.Intn(2) == 0 {
		ec.Sender = m.w.Users[xr.Intn(len(m.w.Users))]
	} else {
		ec.Sender = m.w.Vals[xr.Intn(len(m.w.Vals))]
	}
	if xr.Intn(6) == 0 {
		ec.Sender = m.w.Vals[cf.Signer]
	}
	return ec, true
}

// crossRefRound: after every block of a two-chain world (every 4th block otherwise) one genuine
// signature is replayed on a fork under a chain reference id that is not the batch's.
func (m *mon) crossRefRound() {
	if len(m.w.Chains) < 2 && m.c.Height%4 != 0 {
		return
	}
	if ec, ok := m.crossCase(); ok {
		m.submitOnFork(ec)
	}
}

// crossRefReal: now and then the same as a real transaction (full ante chain).
func (m *mon) crossRefReal() (evCase, bool) {
	pct := 3
	if len(m.w.Chains) < 2 {
		pct = 1
	}
	if m.xr.Intn(100) >= pct {
		return evCase{}, false
	}
	return m.crossCase()
}

// noteChainRef counts non-vacuous replays of genuine signatures by the relation of the named
// chain reference id to the batch's chain, and extends the witness.
func (m *mon) noteChainRef(ec evCase, before []bool) {
	if ec.Conf == nil {
		return
	}
	rel := ec.Rel
	if rel == "" {
		rel = m.refRelation(ec.ChainRef, ec.Conf)
	}
	if before[ec.Conf.Signer] {
		m.rec.Count("replay_chain_ref_signer_already_jailed:"+rel, 1)
		return
	}
	m.rec.Count("replay_chain_ref:"+rel+"/signed="+ec.Conf.Entry.Stage, 1)
	m.rec.Count("replay_chain_ref:"+rel+"/"+ec.Mode, 1)
}

func (m *mon) chainRefWitness(w map[string]any, ec evCase) {
	if ec.Conf == nil {
		return
	}
	w["signature_made_for_batch_of_chain"] = ec.Conf.Entry.Chain
	w["unique_id_the_signed_checkpoint_was_made_from"] = ec.Conf.Entry.InfoID
	w["chain_reference_id_named_in_evidence_is"] = m.refRelation(ec.ChainRef, ec.Conf)
	ids := map[string]string{}
	for _, ch := range m.w.Chains {
		ids[ch] = m.infoID(ch)
	}
	w["chain_info_unique_ids_at_submission"] = ids
	w["world_started_with_shared_compass_unique_id"] = m.sharedRound != nil
}

func newCrossRand(seed int64) *rand.Rand { return rand.New(rand.NewSource(seed*40_503 + 1_299_709)) }
