package c13

// Deployment / activation states of a chain (added after seed C13-e was missed, see NOTES.md).
//
// The checkpoint of a batch is made from the compass unique id in the evm chain info. Every
// history used to live in ONE activation state: each chain activated once during bring-up, the
// evm chain info and every other record of "the compass id" in agreement for ever. Here a part of
// the histories re-activates chains in mid-history through the keeper function the attested
// deployment flow ends in (EvmKeeper.ActivateChainReferenceID, the same call world.ActivateChain
// makes during bring-up), at block boundaries:
//
//	not-newer-contract/new-unique-id  a second deployment of a contract that is not newer than the
//	                                  active one is attested (a retried upload): the chain info
//	                                  keeps its unique id, but the activation is still announced
//	                                  (EVMActivatedChain) and the other modules record the new id
//	newer-contract/new-unique-id      a newer compass takes over: the chain info moves to the new
//	                                  contract and the new unique id
//	re-announce/current-unique-id     the active deployment is announced once more (brings the
//	                                  records back into agreement when they differed)
//
// The monitor keeps its own model of the two ids (what it passed in, and the documented rule "an
// activation with a contract id that is not newer leaves the chain info alone"); the chain info's
// id is cross-checked after every activation (INCONCLUSIVE on disagreement - the model would be
// wrong, not the property). The oracle is unchanged: a checkpoint is issued when it was seen as
// BytesToSign of a stored batch; the reference checkpoint of an evidence subject is computed with
// the id the chain info carries at submission time.

import (
	"fmt"
	"math/rand"

	evmtypes "github.com/palomachain/paloma/v2/x/evm/types"
)

const (
	actNotNewer   = "not-newer-contract/new-unique-id"
	actNewer      = "newer-contract/new-unique-id"
	actReannounce = "re-announce/current-unique-id"
)

type actPlan struct {
	At    int64 // performed at the boundary before this height
	Chain string
	Kind  string
}

type actDone struct {
	Height   int64  `json:"at_boundary_before_height"`
	Chain    string `json:"chain_reference_id"`
	Kind     string `json:"kind"`
	Contract uint64 `json:"smart_contract_id"`
	UniqueID string `json:"unique_id"`
}

// chainAct: the monitor's model of one chain's activation state.
type chainAct struct {
	infoID   string // unique id in the evm chain info: what checkpoints are made from
	lastID   string // unique id of the most recent activation: what the bridge's claim filter follows
	n        int    // activations since bring-up
	gen      int    // newer contracts that took over since bring-up
	active   *evmtypes.SmartContract
	original *evmtypes.SmartContract
}

// state names the activation state of a chain.
func (a *chainAct) state() string {
	switch {
	case a == nil || a.n == 0:
		return "fresh"
	case a.infoID != a.lastID:
		return "unique-ids-differ"
	case a.gen > 0:
		return "newer-contract"
	}
	return "re-activated"
}

func (m *mon) infoID(ch string) string {
	if a := m.act[ch]; a != nil {
		return a.infoID
	}
	return m.w.Compass[ch]
}

func (m *mon) claimCompassID(ch string) string {
	if a := m.act[ch]; a != nil {
		return a.lastID
	}
	return m.w.Compass[ch]
}

func (m *mon) actState(ch string) string { return m.act[ch].state() }

// planActivations draws the activation plan of a history from its own random stream (the main
// stream of the history is untouched, histories without a plan run exactly as before).
func (m *mon) planActivations(seed int64) {
	m.act = map[string]*chainAct{}
	if !m.p.Activations {
		return
	}
	ar := rand.New(rand.NewSource(seed*2_654_435_761 + 97))
	end := m.startH + int64(m.p.Blocks) - 60
	for _, ch := range m.w.Chains {
		m.act[ch] = &chainAct{infoID: m.w.Compass[ch], lastID: m.w.Compass[ch]}
		if m.sharedRound != nil {
			// the world started with a deployment round of a newer compass for all chains (crossref.go):
			// that one is active, the contract of the bring-up is the older one
			m.act[ch].active, m.act[ch].original = m.sharedRound, m.sharedOld
		}
		t := m.startH + 6 + int64(ar.Intn(140))
		n := 1 + ar.Intn(2+m.p.Blocks/450) // 1-3 in 450 blocks, 1-4 in 900
		for i := 0; i < n && t < end; i++ {
			at := t
			switch ar.Intn(6) {
			case 0, 1: // right before a block that builds batches
				at = (t/50 + 1) * 50
			case 2: // right after one: the new batches are unsigned and unestimated
				at = (t/50+1)*50 + 1
			}
			if at >= end {
				break
			}
			kind := []string{actNotNewer, actNotNewer, actNotNewer, actNotNewer, actNotNewer, actNewer, actNewer, actNewer, actReannounce, actReannounce}[ar.Intn(10)]
			m.plan = append(m.plan, actPlan{At: at, Chain: ch, Kind: kind})
			t = at + 40 + int64(ar.Intn(140))
		}
	}
}

// activationOps performs the activations planned for the boundary before height h.
func (m *mon) activationOps(h int64) {
	for _, pl := range m.plan {
		if pl.At == h {
			m.activate(pl, h)
		}
	}
}

func (m *mon) activate(pl actPlan, h int64) {
	a := m.act[pl.Chain]
	k := m.c.App.EvmKeeper
	ctx := m.c.Ctx()
	if a.active == nil {
		sc, err := k.GetLastCompassContract(ctx)
		if err != nil || sc == nil {
			m.rec.Inconclusive(fmt.Sprintf("activation: no compass contract on record: %v", err))
			m.stopped = true
			return
		}
		a.active, a.original = sc, sc
	}
	m.nAct++
	uid := fmt.Sprintf("compass-%s-%d", pl.Chain, 1+m.nAct)
	addr := fmt.Sprintf("0x%040x", 0xC0DE100+m.nAct)
	sc := a.active
	switch pl.Kind {
	case actNotNewer:
		// the active contract again, or - after a take-over - the one that was active before
		if a.gen > 0 && m.nAct%2 == 0 {
			sc = a.original
		}
	case actNewer:
		nsc, err := k.SaveNewSmartContract(ctx, a.active.GetAbiJSON(), a.active.GetBytecode())
		if err != nil {
			m.rec.Inconclusive("activation: saving a newer compass contract failed: " + err.Error())
			m.stopped = true
			return
		}
		sc = nsc
	case actReannounce:
		uid = a.infoID
		ci, err := k.GetChainInfo(ctx, pl.Chain)
		if err == nil {
			addr = ci.GetSmartContractAddr()
		}
	}
	m.rec.Op(map[string]any{"h": h, "op": "activate-chain", "chain": pl.Chain, "kind": pl.Kind, "smart_contract_id": sc.GetId(), "unique_id": uid})
	if err := k.ActivateChainReferenceID(ctx, pl.Chain, sc, addr, []byte(uid)); err != nil {
		m.rec.Inconclusive("activation: ActivateChainReferenceID failed: " + err.Error())
		m.stopped = true
		return
	}
	before := a.state()
	// the model: only a newer contract moves the chain info
	if sc.GetId() > a.active.GetId() {
		a.active = sc
		a.infoID = uid
		a.gen++
	}
	a.lastID = uid
	a.n++
	ci, err := k.GetChainInfo(m.c.Ctx(), pl.Chain)
	if err != nil || string(ci.GetSmartContractUniqueID()) != a.infoID || ci.GetActiveSmartContractID() != a.active.GetId() {
		m.rec.Inconclusive(fmt.Sprintf("activation model disagrees with the evm chain info of %s after %s (model id %q contract %d, chain info %q contract %d, err %v)",
			pl.Chain, pl.Kind, a.infoID, a.active.GetId(), string(ci.GetSmartContractUniqueID()), ci.GetActiveSmartContractID(), err))
		m.stopped = true
		return
	}
	m.acts = append(m.acts, actDone{Height: h, Chain: pl.Chain, Kind: pl.Kind, Contract: sc.GetId(), UniqueID: uid})
	m.rec.Count("activations", 1)
	m.rec.Count("activations:"+pl.Kind, 1)
	m.rec.Count("activation_transition:"+before+"->"+a.state(), 1)
	live := 0
	for _, b := range m.cur.batches {
		if b.ChainReferenceID == pl.Chain {
			live++
		}
	}
	if live > 0 {
		m.rec.Count("activations_with_live_batches", 1)
	}
	dbg("h=%d activate %s %s contract=%d uid=%s -> %s (live batches %d)", h, pl.Chain, pl.Kind, sc.GetId(), uid, a.state(), live)
	// The bridge's event nonces start over with an activation and claims are filtered by the id
	// of the latest activation: the remote side reports what is still open again, from nonce 1.
	m.evNonce[pl.Chain] = 0
	for vi, q := range m.claimsQ {
		var keep = q[:0:0]
		for _, cl := range q {
			if cl.ChainReferenceId != pl.Chain {
				keep = append(keep, cl)
			}
		}
		m.claimsQ[vi] = keep
	}
	for _, bt := range m.tracks {
		if bt.chain == pl.Chain && bt.claimSent && (bt.state == "live-unestimated" || bt.state == "live-estimated") {
			bt.claimSent = false
		}
	}
}

// actWitness: what a violation witness says about the activation state.
func (m *mon) actWitness(w map[string]any, ch string, e *cpEntry) {
	if len(m.acts) == 0 {
		return
	}
	w["activations_so_far"] = m.acts
	w["activation_state_at_submission"] = m.actState(ch)
	w["chain_info_unique_id_at_submission"] = m.infoID(ch)
	w["unique_id_of_latest_activation"] = m.claimCompassID(ch)
	if e != nil {
		w["activation_state_when_checkpoint_was_issued"] = e.Act
		w["chain_info_unique_id_when_checkpoint_was_issued"] = e.InfoID
	}
}
