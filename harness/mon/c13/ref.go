package c13

import (
	"encoding/hex"
	"errors"
	"math/big"
	"strings"

	"github.com/ethereum/go-ethereum/common"
	ethcrypto "github.com/ethereum/go-ethereum/crypto"

	skywaytypes "github.com/palomachain/paloma/v2/x/skyway/types"
)

// ---------------------------------------------------------------------------------------------
// Reference model of the bridge checkpoint, written against the compass contract's interface
// (batch_call(address token, (address[] receiver, uint256[] amount) args, uint256 batch_nonce,
// bytes32 compass_id, uint256 deadline, address relayer, uint256 gas_estimate)) by hand-rolled
// ABI encoding. It shares no code with x/skyway/types.GetCheckpoint (no go-ethereum abi package).

const batchCallSig = "batch_call(address,(address[],uint256[]),uint256,bytes32,uint256,address,uint256)"

// the estimate a batch is signed with while no estimate has been elected (compass needs a value)
const dummyGasEstimate = 300_000

var errRef = errors.New("reference: subject is not a well-formed batch")

func word(b []byte) []byte {
	out := make([]byte, 32)
	if len(b) > 32 {
		b = b[len(b)-32:]
	}
	copy(out[32-len(b):], b)
	return out
}

func wordU(v uint64) []byte { return word(new(big.Int).SetUint64(v).Bytes()) }

func parseAddr(s string) (common.Address, bool) {
	s = strings.TrimSpace(s)
	if len(s) != 42 || !(strings.HasPrefix(s, "0x") || strings.HasPrefix(s, "0X")) {
		return common.Address{}, false
	}
	b, err := hex.DecodeString(s[2:])
	if err != nil || len(b) != 20 {
		return common.Address{}, false
	}
	return common.BytesToAddress(b), true
}

// refCheckpoint computes the bytes a validator signs for the batch described by an external
// OutgoingTxBatch under a compass id. ok=false when the subject cannot describe a batch (the
// chain cannot compute a checkpoint for it either, so the evidence cannot name anybody).
func refCheckpoint(b *skywaytypes.OutgoingTxBatch, compassID string) ([]byte, bool) {
	token, ok := parseAddr(b.TokenContract)
	if !ok {
		return nil, false
	}
	n := len(b.Transactions)
	recv := make([][]byte, n)
	amts := make([][]byte, n)
	for i, tx := range b.Transactions {
		d, ok := parseAddr(tx.DestAddress)
		if !ok {
			return nil, false
		}
		recv[i] = word(d.Bytes())
		if tx.Erc20Token.Amount.IsNil() || tx.Erc20Token.Amount.IsNegative() || tx.Erc20Token.Amount.BigInt().BitLen() > 256 {
			return nil, false
		}
		amts[i] = word(tx.Erc20Token.Amount.BigInt().Bytes())
	}
	if b.BatchNonce >= 1<<63 || b.BatchTimeout >= 1<<63 {
		return nil, false
	}
	est := b.GasEstimate
	if est == 0 {
		est = dummyGasEstimate
	}
	var id [32]byte
	copy(id[:], compassID)
	relayer := common.BytesToAddress(b.AssigneeRemoteAddress)

	var enc []byte
	enc = append(enc, ethcrypto.Keccak256([]byte(batchCallSig))[:4]...)
	// head
	enc = append(enc, word(token.Bytes())...)
	enc = append(enc, wordU(7*32)...) // offset of the dynamic tuple
	enc = append(enc, wordU(b.BatchNonce)...)
	enc = append(enc, id[:]...)
	enc = append(enc, wordU(b.BatchTimeout)...)
	enc = append(enc, word(relayer.Bytes())...)
	enc = append(enc, wordU(est)...)
	// tail: the tuple (address[] receiver, uint256[] amount)
	enc = append(enc, wordU(2*32)...)
	enc = append(enc, wordU(uint64(2*32+32+32*n))...)
	enc = append(enc, wordU(uint64(n))...)
	for _, w := range recv {
		enc = append(enc, w...)
	}
	enc = append(enc, wordU(uint64(n))...)
	for _, w := range amts {
		enc = append(enc, w...)
	}
	return ethcrypto.Keccak256(enc), true
}

// refRecover returns the Ethereum address whose key produced sig over checkpoint with the
// personal-message prefix pigeons use. ok=false: not a signature anybody made.
func refRecover(checkpoint []byte, sigHex string) (common.Address, bool) {
	s := sigHex
	if strings.HasPrefix(s, "0x") {
		s = s[2:]
	}
	sig, err := hex.DecodeString(s)
	if err != nil || len(sig) != 65 {
		return common.Address{}, false
	}
	sig = append([]byte{}, sig...)
	if sig[64] == 27 || sig[64] == 28 {
		sig[64] -= 27
	}
	h := ethcrypto.Keccak256(append([]byte("\x19Ethereum Signed Message:\n32"), checkpoint...))
	pk, err := ethcrypto.SigToPub(h, sig)
	if err != nil {
		return common.Address{}, false
	}
	return ethcrypto.PubkeyToAddress(*pk), true
}
