// Package c13: validators are never punished for doing what the chain asked.
//
// Deciding step: the REAL application (app.App through ABCI, complete ante chain, all end
// blockers) runs bridge histories - batches built, re-estimated, confirmed, timed out, re-built,
// executed - and cross-chain message histories - messages relayed or not, with partial / split /
// no evidence, aged until they are pruned. The monitor
//
//   - archives every checkpoint it ever saw on a stored batch at a block boundary (BytesToSign,
//     cross-checked against a hand-written ABI encoder) and every signature a validator produced
//     over such a checkpoint (accepted MsgConfirmBatch or signed-but-late);
//   - lets any account replay any archived signature as MsgSubmitBadSignatureEvidence at any later
//     boundary - on throw-away forks of the real state (real MsgServiceRouter handler) and as real
//     transactions - and decides from its own model (reference checkpoint + ecrecover + archive)
//     who may be jailed: only the validator whose registered key made the signature, and only if
//     the checkpoint was never issued;
//   - in a part of the histories re-activates the chains in mid-history (retried deployment of a
//     contract that is not newer, take-over by a newer compass, re-announcement - activate.go), so
//     that every stage of a batch's life and every replay also happens in each activation state;
//   - starts a part of the two-chain histories after one deployment round that gave all chains the
//     same compass unique id, and replays genuine signatures also under chain reference ids that
//     are not the batch's (sibling chain, unknown chain - crossref.go);
//   - in a part of the histories lets validators replace their registered bridge key (a fresh key, or a
//     key another validator retired) by a real MsgAddExternalChainInfoForValidator, and submits
//     fabricated batches signed with the RETIRED keys before and after the next snapshot build: a
//     retired key is nobody's registered key, or its new holder's - never the former holder's (rekey.go);
//   - submits truly bad signatures (validator key over a fabricated batch) as a control: they must
//     jail, otherwise the "never jailed" verdicts would be vacuous (INCONCLUSIVE);
//   - at every prune (h%50==0, age > 300) decides from the recorded evidence sets (whose
//     MsgAddEvidence the chain accepted, at any time in the message's life - also before the
//     relayer replaced its error report by a transaction report) and the snapshot shares which
//     validators may be jailed: nobody who supplied evidence for the message they are jailed for,
//     and nobody at all when fewer than 10 % of the snapshot shares attested.
package c13

import (
	"fmt"

	"verif/harness/fw"
)

type params struct {
	Stakes     []int64 `json:"stakes"`
	NChains    int     `json:"n_chains"`
	NUsers     int     `json:"n_users"`
	NSubs      int     `json:"n_subs"`
	MapUgrain  bool    `json:"map_ugrain"`
	Blocks     int     `json:"blocks"`
	Focus      string  `json:"focus"` // batch | prune | mixed
	TimeJumps  bool    `json:"time_jumps"`
	BlockSecs  int     `json:"block_secs"`  // block time is 1..BlockSecs seconds
	LazyRemote bool    `json:"lazy_remote"` // the remote chain rarely executes batches (they time out and are re-built)
	Calm       bool    `json:"calm"`        // no control jailings by real transactions: the snapshot keeps the composition the stake vector was made for
	// chains are (re-)activated in mid-history: retried deployment of a contract that is not newer (new unique id announced,
	// chain info unchanged), take-over by a newer compass (chain info moves to the new unique id), re-announcement (activate.go)
	Activations bool `json:"activations,omitempty"`
	// the chains got their compass in ONE deployment round: a newer compass activated on every chain with the same
	// unique id right after bring-up (crossref.go); only in histories with two chains
	SharedCompassID bool `json:"shared_compass_id,omitempty"`
	// validators replace their registered bridge key in mid-history (new key / a key another validator retired), and
	// evidence signed with the retired keys is submitted before and after the next snapshot build (rekey.go)
	Rekey bool `json:"rekey,omitempty"`
}

// stake vectors (ugrain). Every validator is below the 25 % jailing protection unless noted;
// several vectors contain subsets of exactly 10 %, just below and just above 10 % of the total.
var stakeSets = [][]int64{
	{5_000_000, 5_000_000, 9_999_999, 10_000_001, 10_000_000, 20_000_000, 20_000_000, 20_000_000},
	{9_600_000, 10_400_000, 18_000_000, 17_000_000, 16_000_000, 15_000_000, 14_000_000},
	{2_500_000, 7_000_000, 500_000, 10_000_000, 15_000_000, 20_000_000, 22_000_000, 23_000_000},
	{9_500_000, 500_000, 24_000_000, 24_000_000, 21_000_000, 21_000_000},
	{40_000_000, 9_900_000, 10_100_000, 10_000_000, 10_000_000, 10_000_000, 10_000_000}, // one protected (>25 %)
}

// Two of every seven histories run on a stake vector made for the 10 % floor (edge.go): total
// 10a + r with validators of a-1, a and a+1 shares; r runs through 0..9 over the case list (both
// layouts together cover every r in every run of >= 42 histories), a through edgeUnits.
const stakeSlots = 7

func slotOf(seed int64, i int) int {
	return int((seed%stakeSlots+stakeSlots)%stakeSlots+int64(i)) % stakeSlots
}

func isEdgeSlot(seed int64, i int) bool { return slotOf(seed, i) >= len(stakeSets) }

func stakesFor(seed int64, i int) []int64 {
	slot := slotOf(seed, i)
	if slot < len(stakeSets) {
		return stakeSets[slot]
	}
	layout := slot - len(stakeSets)
	round := int64(i/stakeSlots) + (seed%10+10)%10
	r := (round + int64(layout)*5) % 10
	a := edgeUnits[(round+int64(layout))%int64(len(edgeUnits))]
	return edgeStakes(layout, a, r)
}

// Three of every eight histories re-activate their chains in mid-history (activate.go). The cycle
// is coprime with the stake slots (7), the focus (3) and the block-time / lazy-remote cycles (5), and
// covers histories with and without time jumps (4).
func hasActivations(i int) bool { return i%8 == 2 || i%8 == 5 || i%8 == 7 }

func cases(tier string, seed int64) []fw.Case {
	n, blocks := 45, 450
	if tier == "thorough" {
		n, blocks = 200, 900
	}
	var out []fw.Case
	for i := 0; i < n; i++ {
		s := seed*1_000_003 + int64(i)*7919 + 13
		p := params{
			Stakes:     stakesFor(seed, i),
			NChains:    1 + (i+int(seed))%2,
			NUsers:     3,
			NSubs:      1 + (i/2)%2,
			MapUgrain:  i%3 == 0,
			Blocks:     blocks,
			Focus:      []string{"mixed", "batch", "prune"}[i%3],
			TimeJumps:  i%4 == 1,
			BlockSecs:  []int{3, 6, 3, 10, 2}[i%5],
			LazyRemote: i%5 == 1 || i%5 == 3,
		}
		p.Calm = isEdgeSlot(seed, i)
		p.Activations = hasActivations(i)
		p.SharedCompassID = p.NChains > 1 && hasSharedCompassID(seed, i)
		p.Rekey = hasRekey(i)
		out = append(out, fw.MkCase(fmt.Sprintf("hist-%03d-%s", i, p.Focus), s, p))
	}
	return out
}

func init() {
	fw.Register(&fw.Prop{
		ID:    "C13",
		Level: "exploration",
		Rule: "Seed-determined list of histories (quick 45 x 450 blocks, thorough 200 x 900 blocks) of the real app: random bridge traffic " +
			"(sends, batches built at h%50==0, gas estimates -> election, confirmations before/after the election, time-outs, re-builds, executed claims) " +
			"and cross-chain messages (scheduler jobs) with drawn evidence plans (none / <10% / =10% / 10-35% / ~60% / >=2/3 split / undelivered / re-delivered: error report -> attestations -> transaction report -> attestations / " +
			"edge10: attesters chosen a few blocks before the prune from the snapshot the prune uses, so that their shares are one share below, exactly at or one share above a tenth of the total - " +
			"two of every seven histories run on stake vectors with total 10a+r, r = 0..9, and validators of a-1, a, a+1 shares) aged until pruned. " +
			"Three of every eight histories (re-)activate their chains 1-3 times in mid-history through EvmKeeper.ActivateChainReferenceID at block boundaries (own random stream; before / right after batch-building blocks or anywhere): " +
			"a retried deployment of a contract that is not newer (new unique id announced, chain info unchanged), a take-over by a newer compass (chain info moves to a new unique id), a re-announcement of the current id; " +
			"batches are built, re-estimated, confirmed, timed out, executed and their confirmations replayed in every such state. " +
			"Half of the two-chain histories (a quarter of all) start after one deployment round that gave every chain the SAME compass unique id (a newer compass activated on all chains through EvmKeeper.ActivateChainReferenceID before the first batch); " +
			"in every history genuine signatures (built and re-estimated stage, plain or equivalent spelling) are also replayed under chain reference ids that are not the batch's - the sibling chain (unique id shared or not), a chain reference id paloma does not know - " +
			"after every block of a two-chain history on a fork (every 4th block otherwise) and in a sample of real transactions (own random stream). " +
			"Four of every eleven histories replace registered bridge keys in mid-history by real MsgAddExternalChainInfoForValidator transactions (2-3 retirements in 450 blocks, 3-5 in 900; a third right after a snapshot build, a sixth shortly before one; " +
			"more than half followed 2-15 blocks later by ANOTHER validator registering the retired key; own random stream); never-issued batches signed with every retired key are submitted on a fork after every block while the current snapshot " +
			"still lists the key for its former holder, every ~6th block afterwards, and in a sample of real transactions; the genuine confirmations made with a key before it was replaced keep being replayed. " +
			"'evaluations' counts oracle decisions: one per bad-signature-evidence submission (fork or real tx; who may be jailed) and one per (newly jailed or attesting validator x pruned message). " +
			"A distinct non-trivial case is a distinct (checkpoint stage, batch state at replay time, subject variant, submitter class, outcome; in histories with activations also the activation state of the chain at issue and at submission time; for signatures by retired keys also who has the key registered now and whether the current snapshot still lists it for its former holder) evidence tuple or a distinct " +
			"(evidence-share bucket, position within one share of the 10% floor and 10*attested-total, delivery kind, shares attesting before/after a re-delivery, #attesters, #jailed) prune tuple.",
		Assumptions: []string{
			"'issued' = BytesToSign of a batch stored in skyway state at some block boundary (what pigeons are handed for signing); every batch state change is visible at a boundary because batches are built/re-estimated only in end blockers",
			"the compass unique id in the evm chain info changes only when ActivateChainReferenceID is called with a contract id newer than the active one (monitor's model, cross-checked against the chain info after every activation; INCONCLUSIVE on disagreement); the reference checkpoint of an evidence subject uses the id in force at submission time",
			"genuine signatures are produced with the validators' registered keys over exactly those bytes, with the personal-message prefix pigeons use",
			"every validator has ONE eth key at a time, registered on all chains of the world; 'registered key' = the address the validator's record in the live registry (valset external chain infos - what MsgConfirmBatch is verified against) carries at submission time: the monitor's model of it is updated when the chain accepts a registration and cross-checked against the registry afterwards (INCONCLUSIVE on disagreement); a key a validator has replaced is not its registered key any more, whatever the current snapshot still lists; the checkpoint of an evidence subject is the one made from the compass unique id of the chain the evidence message names (the handler's documented reading), so in a world whose chains share the unique id a batch's published checkpoint is a published checkpoint under either chain reference id; evidence naming a chain reference id paloma does not know may jail nobody",
			"all pigeons keep their keep-alive current, support all chains and have balances, so bad-signature evidence and message pruning are the only jailing sources in the histories; any other jailing makes the case INCONCLUSIVE",
			"fork replays call the real MsgServiceRouter handler on a cache context (no ante); a sample of replays goes through real transactions with the full ante chain",
			"control: a signature by a registered validator key over a never-issued checkpoint must jail that validator (else INCONCLUSIVE, not a violation of the statement); demanded only while the signer's registration is settled = the current snapshot lists the signer with the key the registry has (not for a validator released from jail that is in no snapshot yet, nor between a key replacement and the next snapshot build)",
		},
		Cases: cases,
		Run:   run,
		MinCounters: []string{"checkpoints_archived:built", "checkpoints_archived:re-estimated", "confirmations_archived", "replay_fork", "replay_realtx", "control_bad_sig_jailed", "prune_events", "prune_legit_jailings",
			"prune_redelivered_evidence_before_and_after", "prune_floor_edge:one-unit-below/total%10!=0",
			"replay_tried_activation:issued-in=unique-ids-differ/signed=built", "replay_tried_activation:issued-in=newer-contract/signed=built",
			"worlds_with_shared_compass_unique_id",
			"replay_chain_ref:sibling-chain/same-unique-id/signed=built", "replay_chain_ref:sibling-chain/same-unique-id/signed=re-estimated", "replay_chain_ref:sibling-chain/same-unique-id/realtx",
			"replay_chain_ref:sibling-chain/different-unique-id/signed=built", "replay_chain_ref:unknown-chain/signed=built",
			"key_rotations:new-key", "key_rotations:takes-over-retired-key",
			"retired_key_evidence:unregistered/snapshot-still-lists-former-holder", "retired_key_evidence:registered-by-other/snapshot-still-lists-former-holder",
			"retired_key_evidence:unregistered/snapshot-rebuilt", "retired_key_evidence_realtx"},
		Workers:  16,
		TimeoutS: 3600, // generous: the watchdog only guards against hangs (a 900-block history is ~25 s CPU)
	})
}
