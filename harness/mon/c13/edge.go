package c13

import (
	"fmt"

	sdkmath "cosmossdk.io/math"
)

// The 10 % floor, share unit by share unit. The statement is "nobody is jailed when fewer than 10 %
// of the snapshot shares attested": attested*10 < total, in whole shares (a share is one bonded
// ugrain). Around the floor there are five share distributions that any re-formulation of the test
// has to get right:
//
//	total % 10 == 0:  attested = total/10 - 1 (below, by one share)   total/10 (exactly 10 %)   total/10 + 1
//	total % 10 != 0:  attested = floor(total/10) (below, by less than one share: 10*attested - total
//	                  is -1..-9)                                       floor(total/10) + 1 (above)
//
// The oracle (checkPrune) has always been exact. What was missing is a workload that gets there:
// every stake vector summed up to 100 000 000 and the evidence classes were drawn from the shares
// at the time the message was planned, 300 blocks before the prune. Two things are added:
//
//   - stake vectors whose total is 10a + r for every r in 0..9, with validators holding a-1, a and
//     a+1 shares (edgeStakes; the case list takes them for two of every seven histories);
//   - the evidence class "edge10": the attesters are chosen a few blocks before the prune, from the
//     snapshot the prune will use (it cannot change any more: snapshots are built only at heights
//     = 0 mod 50, after the prune of that block), as the subset whose share is exactly the drawn
//     position relative to the floor - or the nearest one there is in that snapshot.

// edgeStakes: seven validators, total 10a + r, with a-1, a and a+1 among them.
// layout 0: nobody above 20 %. layout 1: one validator with 30 % (it cannot be jailed) carries r.
func edgeStakes(layout int, a, r int64) []int64 {
	if layout == 0 {
		return []int64{a - 1, 2 * a, a, 3 * a / 2, a + 1, 2*a + r, 3 * a / 2}
	}
	return []int64{3*a + r, a - 1, a, a + 1, a, 3 * a / 2, 3 * a / 2}
}

var edgeUnits = []int64{10_000_000, 6_000_000, 8_000_000, 12_000_000}

type edgeTrack struct {
	edgeWant string // position relative to the floor, drawn when the message is planned
	edgeAt   int64  // height at which the attesters are chosen (0: nothing to do)
}

var edgeWants = []string{"one-unit-below", "one-unit-below", "one-unit-below", "one-unit-below", "one-unit-below",
	"exactly-10%", "one-unit-above", "one-unit-above", "nearest-below", "nearest-above"}

// floorEdge names the position of attested relative to the floor when it is within one share of
// it, else "".
func floorEdge(attested, total sdkmath.Int) string {
	if !attested.IsPositive() || !total.IsPositive() {
		return ""
	}
	ten := sdkmath.NewInt(10)
	fl := total.Quo(ten) // floor(total/10)
	mult := total.Mod(ten).IsZero()
	sfx := "/total%10!=0"
	if mult {
		sfx = "/total%10=0"
	}
	switch {
	case mult && attested.Equal(fl.SubRaw(1)), !mult && attested.Equal(fl):
		return "one-unit-below" + sfx
	case mult && attested.Equal(fl):
		return "exactly-10%"
	case attested.Equal(fl.AddRaw(1)):
		return "one-unit-above" + sfx
	}
	return ""
}

func (m *mon) planEdge(mt *msgTrack, hp, h int64) {
	r := m.r
	mt.edgeWant = edgeWants[r.Intn(len(edgeWants))]
	back := int64(1 + r.Intn(12))
	if r.Intn(8) == 0 {
		back = 0 // in the prune block itself
	}
	mt.edgeAt = hp - back
	if mt.edgeAt < h+1 {
		mt.edgeAt = h + 1
	}
	m.rec.Count("edge_planned:"+mt.edgeWant, 1)
}

// edgeOps chooses the attesters of an edge10 message from the live snapshot.
func (m *mon) edgeOps(mt *msgTrack, h int64) {
	if mt.edgeAt == 0 || h < mt.edgeAt {
		return
	}
	mt.edgeAt = 0
	m.refreshShares()
	T := m.total
	if T <= 0 {
		return
	}
	var cands []int
	for i, s := range m.stake {
		if s > 0 && !m.cur.jailed[i] {
			cands = append(cands, i)
		}
	}
	n := len(cands)
	if n == 0 || n > 12 {
		return
	}
	fl := T / 10
	want := map[string]int64{"one-unit-below": fl - 1, "exactly-10%": fl, "one-unit-above": fl + 1}
	if T%10 != 0 {
		want["one-unit-below"] = fl
		want["exactly-10%"] = -1 // there is no such distribution
	}
	type hit struct {
		mask int
		sum  int64
	}
	var exact, below, above []hit // exact: the drawn position; below / above: the nearest sums on either side of the floor
	for mask := 1; mask < 1<<n; mask++ {
		sum := int64(0)
		for j := 0; j < n; j++ {
			if mask&(1<<j) != 0 {
				sum += m.stake[cands[j]]
			}
		}
		if w, ok := want[mt.edgeWant]; ok && sum == w {
			exact = append(exact, hit{mask, sum})
		}
		if sum*10 < T {
			if len(below) == 0 || sum > below[0].sum {
				below = []hit{{mask, sum}}
			} else if sum == below[0].sum {
				below = append(below, hit{mask, sum})
			}
		} else {
			if len(above) == 0 || sum < above[0].sum {
				above = []hit{{mask, sum}}
			} else if sum == above[0].sum {
				above = append(above, hit{mask, sum})
			}
		}
	}
	pool := exact
	if len(pool) == 0 {
		switch mt.edgeWant {
		case "one-unit-below", "nearest-below":
			pool = below
		case "one-unit-above", "nearest-above":
			pool = above
		default:
			if pool = above; m.r.Intn(2) == 0 {
				pool = below
			}
		}
	}
	if len(pool) == 0 {
		m.rec.Count("edge_decided:no-such-subset", 1)
		return
	}
	pick := pool[m.r.Intn(len(pool))]
	got := floorEdge(sdkmath.NewInt(pick.sum), sdkmath.NewInt(T))
	if got == "" {
		got = "further-away"
		if pick.sum*10 < T {
			got += "-below"
		} else {
			got += "-above"
		}
	}
	m.rec.Count("edge_decided:"+got, 1)
	dbg("h=%d edge msg %s want=%s got=%s sum=%d total=%d (10*sum-total=%d)", h, mt.key, mt.edgeWant, got, pick.sum, T, pick.sum*10-T)
	for j := 0; j < n; j++ {
		if pick.mask&(1<<j) != 0 {
			mt.ev = append(mt.ev, planEv{Val: cands[j], Group: 0, At: h})
		}
	}
}

// noteFloorEdge counts a pruned message that carries a delivery report (only then the floor
// decides anything) and whose attested shares are within one share of the floor.
func (m *mon) noteFloorEdge(pm *prunedMsg) {
	pm.edge = floorEdge(pm.votes, pm.total)
	pm.x10 = pm.votes.MulRaw(10).Sub(pm.total)
	if pm.edge == "" || pm.q.delivered == "" {
		return
	}
	m.rec.Count("prune_floor_edge:"+pm.edge, 1)
	dbg("pruned %s|%d at the floor: %s attested=%s total=%s 10*attested-total=%s", pm.q.queue, pm.q.id, pm.edge, pm.votes, pm.total, pm.x10)
}

func edgeKey(pm *prunedMsg) string {
	if pm.edge == "" {
		return ""
	}
	return fmt.Sprintf("%s(%s)", pm.edge, pm.x10)
}
