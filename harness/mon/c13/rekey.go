package c13

// Registered bridge keys over time (added after seed C13-g was missed, see NOTES.md).
//
// "Bad-signature evidence jails a validator only if the signature is by that validator's
// REGISTERED key": every history used to live with one key per validator, registered during
// bring-up and never touched, so "the key the validator has registered", "the key the current
// snapshot lists for it" and "a key it had registered at some time" were the same thing. Here a
// part of the histories lets validators replace their bridge key the way a pigeon that comes up
// with a new key does - MsgAddExternalChainInfoForValidator with the new address on all chains,
// a real transaction - at planned heights (own random stream):
//
//	new-key                  the validator registers a fresh key; the key it had is registered by
//	                         nobody from then on (retired)
//	takes-over-retired-key   ANOTHER validator registers a key somebody retired earlier (a few
//	                         blocks after the retirement, so that it often happens before the next
//	                         snapshot build); its own former key is retired in turn
//
// The valset snapshot is rebuilt only at heights = 0 mod 50, so for up to 49 blocks the current
// snapshot still lists the retired key for its former holder. In every block of such a history
// somebody (user / validator / former holder / new holder) submits bad-signature evidence over a
// fabricated, never-issued batch signed with a RETIRED key - on forks every block while a snapshot
// still lists the key for its former holder, every ~6th block afterwards (also after the snapshot
// was rebuilt), and in a sample of real transactions.
//
// The oracle is the one there was (refVerdict/judge): the reference signer is the validator that
// has the recovered address registered AT SUBMISSION TIME - the monitor's own model of the
// registry, updated when the chain accepted a registration and cross-checked against the live
// registry afterwards (INCONCLUSIVE on disagreement). A retired key that nobody registered is
// nobody's key: no jailing. A retired key somebody else registered is that validator's key: only
// that validator may be jailed. The genuine confirmations made with a key that was retired later
// stay in the archive and keep being replayed: their checkpoints were issued, nobody may be jailed.
//
// The pigeon follows its registration: from the block after the accepted registration it signs with
// the new key (the account's EthKey is swapped, all world helpers read it), confirmations it had
// signed with the old key but not delivered yet are rejected by the chain, and it signs the live
// checkpoints again with the new key.
//
// Control ("a registered key over a never-issued checkpoint must jail", non-vacuity only): it is
// demanded only when the signer's registration is settled - the validator is in the current
// snapshot and the snapshot lists the key the live registry has. For a validator that has just
// been released from jail (back in the registry, not yet in a snapshot) or has just changed its key
// the statement allows either outcome and an implementation may consult either record; those
// submissions are counted as control_not_demanded:<why>, the verdicts about who may NOT be jailed
// are unaffected.

import (
	"crypto/ecdsa"
	"crypto/sha256"
	"encoding/hex"
	"fmt"
	"math/rand"
	"sort"
	"strings"

	sdk "github.com/cosmos/cosmos-sdk/types"
	ethcrypto "github.com/ethereum/go-ethereum/crypto"

	valsettypes "github.com/palomachain/paloma/v2/x/valset/types"

	"verif/harness/chain"
	"verif/harness/world"
)

const (
	rekeyNew      = "new-key"
	rekeyTakeOver = "takes-over-retired-key"

	relKeyUnregistered = "unregistered"
	relKeyTaken        = "registered-by-other"

	winOpen   = "snapshot-still-lists-former-holder"
	winClosed = "snapshot-rebuilt"
)

// Four of every eleven histories rotate keys (the cycle is coprime with the stake slots (7), the
// focus (3), block-time / lazy-remote (5), time jumps (4), activations (8) and chain-count cycles).
func hasRekey(i int) bool {
	switch i % 11 {
	case 1, 4, 6, 9:
		return true
	}
	return false
}

type keyEvent struct {
	At   int64
	Kind string
	done bool
}

// retiredKey: a key some validator had registered and replaced.
type retiredKey struct {
	Addr string // checksum hex
	Priv *ecdsa.PrivateKey
	By   int   // the validator that retired it (former holder)
	At   int64 // height of the block whose transaction retired it
}

type keyRotation struct {
	Height    int64  `json:"in_block"`
	Validator string `json:"validator"`
	Kind      string `json:"kind"`
	Old       string `json:"retired_address"`
	New       string `json:"registered_address"`
}

// keyModel: the monitor's model of the registry of bridge keys.
type keyModel struct {
	cur     []string         // address each validator has registered (all chains)
	since   []int64          // ... since this height
	holder  map[string]int   // lower-case address -> validator that has it registered
	former  map[string][]int // lower-case address -> validators that had it registered and replaced it
	retired []*retiredKey
	done    []keyRotation
	plan    []*keyEvent
	sentAt  int64 // a registration transaction is in the block of this height
	n       int
	seed    int64
	open    map[*retiredKey]bool // a snapshot still listed the key for its former holder at the last boundary
}

func newRekeyRand(seed int64) *rand.Rand {
	return rand.New(rand.NewSource(seed*7_368_787 + 15_485_863))
}

func (m *mon) initKeys(seed int64) {
	k := &keyModel{holder: map[string]int{}, former: map[string][]int{}, open: map[*retiredKey]bool{}, seed: seed, sentAt: -1}
	for i, v := range m.w.Vals {
		k.cur = append(k.cur, v.EthAddr())
		k.since = append(k.since, 0)
		k.holder[strings.ToLower(v.EthAddr())] = i
	}
	m.keys = k
	m.kr = newRekeyRand(seed)
	m.proofKey = m.w.Vals[0].EthKey
	if !m.p.Rekey {
		return
	}
	// plan: 2-3 retirements in 450 blocks (3-5 in 900), half of them followed by a take-over
	kr := m.kr
	end := m.startH + int64(m.p.Blocks) - 25
	t := m.startH + 45 + int64(kr.Intn(100))
	n := 2 + kr.Intn(2) + m.p.Blocks/900*(1+kr.Intn(2))
	for i := 0; i < n && t < end; i++ {
		at := t
		switch kr.Intn(6) {
		case 0, 1: // right after a snapshot build: the snapshot keeps the retired key for 49 blocks
			at = (t/50+1)*50 + 1
		case 2: // shortly before one
			at = (t/50+1)*50 - 2 - int64(kr.Intn(3))
		}
		if at%50 == 0 {
			at++
		}
		if at >= end {
			break
		}
		k.plan = append(k.plan, &keyEvent{At: at, Kind: rekeyNew})
		if kr.Intn(2) == 0 || i == 0 {
			to := at + 2 + int64(kr.Intn(14))
			if to%50 == 0 {
				to++
			}
			k.plan = append(k.plan, &keyEvent{At: to, Kind: rekeyTakeOver})
		}
		t = at + 60 + int64(kr.Intn(100))
	}
}

func (m *mon) freshKey() *ecdsa.PrivateKey {
	m.keys.n++
	h := sha256.Sum256([]byte(fmt.Sprintf("c13/rekey/%d/%d", m.keys.seed, m.keys.n)))
	k, err := ethcrypto.ToECDSA(h[:])
	if err != nil {
		panic(err)
	}
	return k
}

func keyAddr(k *ecdsa.PrivateKey) string { return ethcrypto.PubkeyToAddress(k.PublicKey).Hex() }

// snapLists: the validator for which the current snapshot lists addr on chainRef ("" = any chain); -1: none.
func (m *mon) snapLists(addr, chainRef string) int {
	if m.cur.snap == nil {
		return -1
	}
	for _, sv := range m.cur.snap.Validators {
		for _, ci := range sv.ExternalChainInfos {
			if (chainRef == "" || ci.GetChainReferenceID() == chainRef) && strings.EqualFold(ci.GetAddress(), addr) {
				bech := sdkValBech(sv.Address)
				for i, v := range m.w.Vals {
					if v.ValBech() == bech {
						return i
					}
				}
			}
		}
	}
	return -1
}

// keyUnsettled: "" when the current snapshot lists validator vi with the key the registry has for
// it on chainRef; else why not.
func (m *mon) keyUnsettled(vi int, chainRef string) string {
	if m.cur.snap == nil {
		return "no-snapshot"
	}
	bech := m.w.Vals[vi].ValBech()
	for _, sv := range m.cur.snap.Validators {
		if sdkValBech(sv.Address) != bech {
			continue
		}
		for _, ci := range sv.ExternalChainInfos {
			if ci.GetChainReferenceID() == chainRef {
				if strings.EqualFold(ci.GetAddress(), m.keys.cur[vi]) {
					return ""
				}
				return "snapshot-lists-another-key-for-signer"
			}
		}
		return "snapshot-lists-no-key-for-signer"
	}
	return "signer-not-in-current-snapshot"
}

func (m *mon) isFormerHolder(vi int, addr string) bool {
	for _, f := range m.keys.former[strings.ToLower(addr)] {
		if f == vi {
			return true
		}
	}
	return false
}

// replacedAt: the height of the block in which validator vi replaced addr (0: it never did).
func (m *mon) replacedAt(vi int, addr string) int64 {
	at := int64(0)
	for _, rk := range m.keys.retired {
		if rk.By == vi && strings.EqualFold(rk.Addr, addr) {
			at = rk.At
		}
	}
	return at
}

// settledValidators: not jailed, in the current snapshot with the key they have registered.
func (m *mon) settledValidators() []int {
	var out []int
	for i := range m.w.Vals {
		if !m.cur.jailed[i] && m.keyUnsettled(i, m.w.Chains[0]) == "" {
			out = append(out, i)
		}
	}
	return out
}

// rekeyOps sends the registrations planned for the block of height h (at most one per block,
// never in a block that builds a snapshot).
func (m *mon) rekeyOps(h int64) {
	k := m.keys
	if len(k.plan) == 0 {
		return
	}
	for _, ev := range k.plan {
		if ev.done || ev.At > h {
			continue
		}
		if h%50 == 0 || k.sentAt == h || h > m.startH+int64(m.p.Blocks)-20 {
			continue
		}
		cands := m.settledValidators()
		if len(cands) == 0 {
			continue
		}
		var vi int
		var key *ecdsa.PrivateKey
		var taken *retiredKey
		kind := ev.Kind
		if kind == rekeyTakeOver {
			// a key somebody retired and nobody registered since; those a snapshot still lists first
			var free []*retiredKey
			for pass := 0; pass < 2 && len(free) == 0; pass++ {
				for _, rk := range k.retired {
					if m.keyHolder(rk) < 0 && (pass == 1 || k.open[rk]) {
						free = append(free, rk)
					}
				}
			}
			if len(free) == 0 {
				if len(k.retired) == 0 && h < ev.At+20 {
					continue // the retirement it follows has not gone through yet
				}
				kind = rekeyNew
			} else {
				taken = free[m.kr.Intn(len(free))]
				var cs []int
				for _, c := range cands {
					if !m.isFormerHolder(c, taken.Addr) {
						cs = append(cs, c)
					}
				}
				if len(cs) == 0 {
					continue
				}
				cands, key = cs, taken.Priv
			}
		}
		vi = cands[m.kr.Intn(len(cands))]
		if key == nil {
			key = m.freshKey()
		}
		v := m.w.Vals[vi]
		msg := &valsettypes.MsgAddExternalChainInfoForValidator{Metadata: world.Meta(v)}
		addr := ethcrypto.PubkeyToAddress(key.PublicKey)
		for _, ch := range m.w.Chains {
			msg.ChainInfos = append(msg.ChainInfos, &valsettypes.ExternalChainInfo{ChainType: "evm", ChainReferenceID: ch, Address: addr.Hex(), Pubkey: addr.Bytes()})
		}
		ev, kind, vi, key := ev, kind, vi, key
		if !m.send(v, "register-bridge-key", msg, func(res chain.TxResult) {
			if !res.OK() {
				m.rec.Count("key_rotation_rejected", 1)
				dbg("h=%d key rotation of %s rejected: %s", h, v.Name, firstLine(res.Log))
				ev.At = h + 2
				return
			}
			ev.done = true
			m.applyRekey(h, vi, key, kind)
		}) {
			continue
		}
		k.sentAt = h
		return
	}
}

// applyRekey: the chain accepted the registration in the block of height h.
func (m *mon) applyRekey(h int64, vi int, key *ecdsa.PrivateKey, kind string) {
	k := m.keys
	v := m.w.Vals[vi]
	old, oldKey := k.cur[vi], v.EthKey
	nw := keyAddr(key)
	delete(k.holder, strings.ToLower(old))
	k.former[strings.ToLower(old)] = append(k.former[strings.ToLower(old)], vi)
	k.holder[strings.ToLower(nw)] = vi
	k.cur[vi], k.since[vi] = nw, h
	k.retired = append(k.retired, &retiredKey{Addr: old, Priv: oldKey, By: vi, At: h})
	// the pigeon comes up with the new key
	v.EthKey = key
	k.done = append(k.done, keyRotation{Height: h, Validator: v.Name, Kind: kind, Old: old, New: nw})
	m.rec.Count("key_rotations", 1)
	m.rec.Count("key_rotations:"+kind, 1)
	dbg("h=%d %s %s: %s -> %s", h, v.Name, kind, old, nw)
	// the model against the live registry
	infos, err := m.c.App.ValsetKeeper.GetValidatorChainInfos(m.c.Ctx(), v.ValAddr())
	ok := err == nil && len(infos) == len(m.w.Chains)
	for _, ci := range infos {
		if ci.GetAddress() != nw {
			ok = false
		}
	}
	if !ok {
		m.rec.Inconclusive(fmt.Sprintf("key model disagrees with the live registry after %s registered %s (err %v, registry %v)", v.Name, nw, err, infos))
		m.stopped = true
		return
	}
	// it signs the live checkpoints again (what it signed with the old key and did not get accepted is lost)
	for _, bt := range m.tracks {
		for sk := range bt.signed {
			if !strings.HasPrefix(sk, fmt.Sprintf("%d|", vi)) {
				continue
			}
			cp := sk[strings.IndexByte(sk, '|')+1:]
			if !bt.accepted[cp][vi] {
				delete(bt.signed, sk)
			}
		}
	}
}

// noteKeyWindows: at every boundary, which retired keys a snapshot still lists for their former holder.
func (m *mon) noteKeyWindows() {
	k := m.keys
	for _, rk := range k.retired {
		now := m.snapLists(rk.Addr, "") == rk.By
		if k.open[rk] && !now {
			m.rec.Count("snapshots_rebuilt_after_key_rotation", 1)
		}
		k.open[rk] = now
	}
}

// keyHolder: the validator that has the retired key registered now; -1: nobody.
func (m *mon) keyHolder(rk *retiredKey) int {
	if vi, ok := m.keys.holder[strings.ToLower(rk.Addr)]; ok {
		return vi
	}
	return -1
}

func (m *mon) keyRel(rk *retiredKey) string {
	if m.keyHolder(rk) >= 0 {
		return relKeyTaken
	}
	return relKeyUnregistered
}

func (m *mon) keyWindow(rk *retiredKey) string {
	if m.snapLists(rk.Addr, "") == rk.By {
		return winOpen
	}
	return winClosed
}

func (m *mon) entryR(rng *rand.Rand) *cpEntry {
	if len(m.archive) == 0 {
		return nil
	}
	keys := make([]string, 0, len(m.archive))
	for k := range m.archive {
		keys = append(keys, k)
	}
	sort.Strings(keys)
	return m.archive[keys[rng.Intn(len(keys))]]
}

// retiredCase: bad-signature evidence over a batch the chain never issued, signed with a retired key.
func (m *mon) retiredCase(rk *retiredKey) (evCase, bool) {
	kr := m.kr
	e := m.entryR(kr)
	if e == nil {
		return evCase{}, false
	}
	s, what := m.fabricateR(kr, e)
	if what == "" {
		return evCase{}, false
	}
	cp, ok := refCheckpoint(&s, m.infoID(e.Chain))
	if !ok {
		return evCase{}, false
	}
	ec := evCase{Subject: s, ChainRef: e.Chain, Stage: e.Stage, State: m.stateOf(e), Retired: rk}
	ec.Kind = "retired-key/" + m.keyRel(rk) + ":" + what
	ec.SigHex = hex.EncodeToString(world.EthSign(rk.Priv, cp))
	switch x := kr.Intn(8); {
	case x < 3:
		ec.Sender = m.w.Users[kr.Intn(len(m.w.Users))]
	case x < 6:
		ec.Sender = m.w.Vals[kr.Intn(len(m.w.Vals))]
	case x == 6 || m.keyHolder(rk) < 0:
		ec.Sender = m.w.Vals[rk.By]
	default:
		ec.Sender = m.w.Vals[m.keyHolder(rk)]
	}
	return ec, true
}

// rekeyRound: after every block, evidence signed with retired keys on forks - every key a snapshot
// still lists for its former holder, the others every ~6th block; at most 2 per block.
func (m *mon) rekeyRound() {
	n := 0
	for _, rk := range m.keys.retired {
		if n >= 2 {
			break
		}
		if m.keyWindow(rk) == winOpen || m.kr.Intn(6) == 0 {
			if ec, ok := m.retiredCase(rk); ok {
				n++
				m.submitOnFork(ec)
			}
		}
	}
}

// rekeyReal: now and then the same as a real transaction (full ante chain).
func (m *mon) rekeyReal() (evCase, bool) {
	k := m.keys
	if len(k.retired) == 0 {
		return evCase{}, false
	}
	var open, all []*retiredKey
	for _, rk := range k.retired {
		if m.p.Calm && m.keyHolder(rk) >= 0 {
			continue // calm histories: nobody is jailed by a real transaction on purpose
		}
		all = append(all, rk)
		if m.keyWindow(rk) == winOpen {
			open = append(open, rk)
		}
	}
	pct, pool := 1, all
	if len(open) > 0 {
		pct, pool = 8, open
	}
	if len(pool) == 0 || m.kr.Intn(100) >= pct {
		return evCase{}, false
	}
	return m.retiredCase(pool[m.kr.Intn(len(pool))])
}

// noteRetired counts the submissions made with a retired key (non-vacuous: the former holder
// could still be jailed) by what the registry and the current snapshot say about the key.
func (m *mon) noteRetired(ec evCase, before, after []bool) string {
	rk := ec.Retired
	if rk == nil {
		return ""
	}
	rel, win := m.keyRel(rk), m.keyWindow(rk)
	if before[rk.By] {
		m.rec.Count("retired_key_evidence_vacuous:former-holder-already-jailed", 1)
	} else {
		m.rec.Count("retired_key_evidence:"+rel+"/"+win, 1)
		m.rec.Count("retired_key_evidence_"+ec.Mode, 1)
	}
	if nh := m.keyHolder(rk); nh >= 0 && !before[nh] && after[nh] {
		m.rec.Count("retired_key_evidence_jailed_new_holder", 1)
	}
	return "|key=" + rel + "|" + win
}

// keyWitness: what a violation witness says about the registered keys.
func (m *mon) keyWitness(w map[string]any, ec evCase, ver verdict) {
	k := m.keys
	if len(k.done) == 0 {
		return
	}
	w["bridge_key_registrations_so_far"] = k.done
	if ver.Addr == "" {
		return
	}
	w["address_recovered_from_signature"] = ver.Addr
	if vi, ok := k.holder[strings.ToLower(ver.Addr)]; ok {
		w["address_registered_now_by"] = m.w.Vals[vi].Name
		w["address_registered_since_height"] = k.since[vi]
	} else {
		w["address_registered_now_by"] = "nobody"
	}
	var f []string
	for _, vi := range k.former[strings.ToLower(ver.Addr)] {
		f = append(f, fmt.Sprintf("%s (now registered: %s since height %d)", m.w.Vals[vi].Name, k.cur[vi], k.since[vi]))
	}
	if len(f) > 0 {
		w["address_formerly_registered_by"] = f
	}
	if m.cur.snap != nil {
		w["current_snapshot"] = map[string]any{"id": m.cur.snap.Id, "built_at_height": m.cur.snap.Height}
		if vi := m.snapLists(ver.Addr, ""); vi >= 0 {
			w["current_snapshot_lists_address_for"] = m.w.Vals[vi].Name
		} else {
			w["current_snapshot_lists_address_for"] = "nobody"
		}
	}
}

func sdkValBech(addr []byte) string { return sdk.ValAddress(addr).String() }
