package c13

import (
	"fmt"
	"sort"

	"verif/harness/chain"
	"verif/harness/world"
)

// Re-delivered messages: the relayer first reports a failure (MsgSetErrorData), validators attest
// to it, later the relayer reports a transaction after all (MsgSetPublicAccessData - the chain
// accepts the two reports only in this order), more validators attest, nothing reaches 2/3, and
// the message ages out. Every state change of the message between the first attestation and the
// prune is a chance for the chain to forget who supplied evidence; the oracle does not need
// anything new for it (it remembers whose MsgAddEvidence was accepted, see checkPrune), the
// workload has to get there.

// groupErrorProof is the proof group of "the execution failed" attestations
// (SmartContractExecutionErrorProof); groups 0 and 1 are two different TxExecutedProofs.
const groupErrorProof = 2

type redeliveredTrack struct {
	publicAt int64 // error-then-public: when the relayer reports the transaction
	relayer  int   // validator whose error report was accepted
	pendP1   int   // phase-1 attestations handed to the pigeons' outboxes and not yet decided
	pubTried int
	before   map[int]bool // accepted MsgAddEvidence while the message carried only the error report
	after    map[int]bool // accepted MsgAddEvidence after the public access data was on the message
	lost     map[int]bool // accepted earlier, not on the stored message at a later boundary (diagnostic)
}

func (mt *msgTrack) noteAccepted(pe planEv) {
	switch pe.Phase {
	case 1:
		if mt.before == nil {
			mt.before = map[int]bool{}
		}
		mt.before[pe.Val] = true
	case 2:
		if mt.after == nil {
			mt.after = map[int]bool{}
		}
		mt.after[pe.Val] = true
	}
}

func (m *mon) shareOf(vals []int) int64 {
	s := int64(0)
	for _, v := range vals {
		s += m.stake[v]
	}
	return s
}

// subsetOf picks validators out of cands whose share lies in [lo, hi] per-mille of the snapshot total.
func (m *mon) subsetOf(cands []int, loPM, hiPM int64) ([]int, bool) {
	for try := 0; try < 40 && len(cands) > 0; try++ {
		var pick []int
		sum := int64(0)
		for _, j := range m.r.Perm(len(cands)) {
			i := cands[j]
			if m.stake[i] > 0 && (sum+m.stake[i])*1000 <= hiPM*m.total {
				pick = append(pick, i)
				sum += m.stake[i]
			}
			if sum*1000 >= loPM*m.total && m.r.Intn(2) == 0 {
				break
			}
		}
		if len(pick) > 0 && sum*1000 >= loPM*m.total && sum*1000 <= hiPM*m.total {
			return pick, true
		}
	}
	return nil, false
}

// planRedelivered draws the plan of an error-then-public message: who attests to the error report
// (phase 1), when the transaction is reported, who attests after that (phase 2), with which proofs.
// No proof group ever gets 2/3 of the planned shares, so the message stays contested.
func (m *mon) planRedelivered(mt *msgTrack, hp int64) {
	r := m.r
	mt.deliver = "error-then-public"
	mt.relayer = -1
	mt.publicAt = mt.deliverAt + 4 + int64(r.Intn(120))
	var cands []int
	for i := range m.stake {
		if m.stake[i] > 0 {
			cands = append(cands, i)
		}
	}
	if len(cands) == 0 {
		return
	}
	// phase 1: a few, a minority, or close to a majority
	var p1 []int
	ok := false
	switch r.Intn(4) {
	case 0:
		p1, ok = m.subsetOf(cands, 1, 99)
	case 1, 2:
		p1, ok = m.subsetOf(cands, 100, 350)
	default:
		p1, ok = m.subsetOf(cands, 360, 600)
	}
	if !ok {
		p1 = []int{cands[r.Intn(len(cands))]}
	}
	in1 := map[int]bool{}
	for _, v := range p1 {
		in1[v] = true
	}
	var rest []int
	for _, v := range cands {
		if !in1[v] {
			rest = append(rest, v)
		}
	}
	// phase 2: nobody, below the 10 % floor, just above it, a minority, close to a majority
	var p2 []int
	switch r.Intn(7) {
	case 0:
	case 1:
		p2, _ = m.subsetOf(rest, 1, 99)
	case 2, 3:
		p2, ok = m.subsetOf(rest, 100, 160)
		if !ok {
			p2, _ = m.subsetOf(rest, 100, 350)
		}
	case 4, 5:
		p2, _ = m.subsetOf(rest, 100, 350)
	default:
		p2, ok = m.subsetOf(rest, 360, 600)
		if !ok {
			p2, _ = m.subsetOf(rest, 100, 600)
		}
	}
	// proofs: phase 1 attests the failure (or already a transaction), phase 2 a transaction
	g1 := []int{groupErrorProof, groupErrorProof, 0}[r.Intn(3)]
	g2 := 1
	if r.Intn(3) == 0 {
		g2 = g1 // everybody reports the same thing; together they must stay below 2/3
		for len(p2) > 0 && (m.shareOf(p1)+m.shareOf(p2))*3 >= m.total*2 {
			p2 = p2[:len(p2)-1]
		}
	}
	// now and then an early attester attests again after the transaction was reported
	if g1 != g2 && len(p1) > 1 && r.Intn(4) == 0 {
		x := p1[r.Intn(len(p1))]
		if (m.shareOf(p2)+m.stake[x])*3 < m.total*2 {
			p2 = append(p2, x)
		}
	}
	for _, v := range p1 {
		at := mt.deliverAt + 1
		if d := mt.publicAt - 1 - at; d > 0 {
			at += int64(r.Intn(int(d) + 1))
		}
		mt.ev = append(mt.ev, planEv{Val: v, Group: g1, At: at, Phase: 1})
	}
	for _, v := range p2 {
		at := hp
		switch r.Intn(8) {
		case 0: // in the prune block itself
		case 1:
			at = hp - 1
		default:
			lo := mt.publicAt + 1
			if hp > lo {
				at = lo + int64(r.Intn(int(hp-lo)))
			}
		}
		mt.ev = append(mt.ev, planEv{Val: v, Group: g2, At: at, Phase: 2})
	}
}

// redeliverOps: the relayer of an error-then-public message reports the transaction once every
// planned phase-1 attestation has been decided by the chain (so the order error report ->
// attestations -> transaction report -> attestations is exact, not a matter of tx ordering).
func (m *mon) redeliverOps(mt *msgTrack, q qmsg, h int64) {
	if mt.deliver != "error-then-public" || mt.delivered != "error" || !q.hasErr || q.hasPub || h < mt.publicAt || mt.pendP1 > 0 {
		return
	}
	for _, pe := range mt.ev {
		if pe.Phase == 1 {
			return
		}
	}
	vi := mt.relayer
	if vi < 0 || m.cur.jailed[vi] || mt.pubTried > 0 && m.r.Intn(2) == 0 {
		vi = m.r.Intn(len(m.w.Vals))
	}
	mt.pubTried++
	data := make([]byte, 32)
	m.r.Read(data)
	sid := uint64(0)
	if m.cur.snap != nil {
		sid = m.cur.snap.Id
	}
	m.outbox[vi] = append(m.outbox[vi], outMsg{notBefore: h, kind: "public-access-data-after-error", msg: world.MsgPublicAccess(m.w.Vals[vi], mt.queue, mt.id, data, sid), cb: func(res chain.TxResult) {
		if res.OK() && mt.delivered == "error" {
			mt.delivered = "error+public"
		}
	}})
	mt.publicAt = h + 3 // retry if it did not go through
}

// shareBucket names the share of the snapshot a set of validators holds, relative to the 10 % floor.
func shareBucket(pm *prunedMsg, set map[int]bool, shares map[int]int64) string {
	s := int64(0)
	for vi := range set {
		s += shares[vi]
	}
	switch {
	case s == 0:
		return "0"
	case pm.total.IsInt64() && s*10 < pm.total.Int64():
		return "<10%"
	}
	return ">=10%"
}

// noteRedelivered counts a pruned message whose delivery report was replaced while attestations
// were already there, and returns what the witness of a violation should say about it.
func (m *mon) noteRedelivered(pm *prunedMsg, shares map[int]int64) {
	mt := pm.mt
	if mt == nil || pm.q.delivered != "error+public" {
		return
	}
	b, a := shareBucket(pm, mt.before, shares), shareBucket(pm, mt.after, shares)
	m.rec.Count("prune_redelivered", 1)
	m.rec.Count(fmt.Sprintf("prune_redelivered:before=%s/after=%s", b, a), 1)
	onlyBefore := 0
	for vi := range mt.before {
		if !mt.after[vi] {
			onlyBefore++
		}
	}
	if onlyBefore > 0 && a == ">=10%" {
		// the interesting ones: early attesters that did not attest again, and enough later
		// attestations for the prune to jail the validators that never attested
		m.rec.Count("prune_redelivered_evidence_before_and_after", 1)
	}
	pm.redelivered = fmt.Sprintf("before=%s/after=%s", b, a)
	dbg("pruned re-delivered %s: before=%v (%s) after=%v (%s) stored=%v relayer=%d", mt.key, names(m, mt.before), b, names(m, mt.after), a, names(m, pm.stored), mt.relayer)
}

func names(m *mon, set map[int]bool) []string {
	out := []string{}
	for vi := range set {
		out = append(out, m.w.Vals[vi].Name)
	}
	sort.Strings(out)
	return out
}

// noteLostEvidence is observability only (the property speaks about jailing, not about the list):
// at every block boundary, every validator whose MsgAddEvidence the chain accepted for a message
// that is still queued should be on the stored message's evidence list. The counter
// evidence_accepted_but_not_on_stored_message says how often that was not so (once per message and
// validator); the prune oracle never relies on the stored list alone.
func (m *mon) noteLostEvidence(post obs) {
	for k, mt := range m.msgs {
		q, live := post.msgs[k]
		if !live || len(mt.recorded) == 0 {
			continue
		}
		on := map[string]bool{}
		for _, a := range q.evidence {
			on[a] = true
		}
		for vi := range mt.recorded {
			if !on[m.w.Vals[vi].ValBech()] && !mt.lost[vi] {
				if mt.lost == nil {
					mt.lost = map[int]bool{}
				}
				mt.lost[vi] = true
				m.rec.Count("evidence_accepted_but_not_on_stored_message", 1)
			}
		}
	}
}
