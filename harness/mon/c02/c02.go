//go:build verif

// Package c02: oracle safety. A claim about a remote event takes effect only after validators
// holding > 66% of the bonded power voted for the identical claim, each validator counted once;
// per chain at most one claim per nonce takes effect between governance resets, once, in
// consecutive nonce order.
//
// The real app runs histories with honest / lazy / byzantine pigeons, stake moves, jailings and
// governance nonce overrides; a shadow oracle diffs the attestation records at every block
// boundary, recounts DISTINCT voters' power from staking and compares effects with the simulated
// remote events.
package c02

import (
	"fmt"
	valsettypes "github.com/palomachain/paloma/v2/x/valset/types"
	"math/rand"
	"sort"
	"strings"

	sdkmath "cosmossdk.io/math"
	sdk "github.com/cosmos/cosmos-sdk/types"
	slashingtypes "github.com/cosmos/cosmos-sdk/x/slashing/types"
	stakingtypes "github.com/cosmos/cosmos-sdk/x/staking/types"

	skywaytypes "github.com/palomachain/paloma/v2/x/skyway/types"

	"verif/harness/chain"
	"verif/harness/fw"
	"verif/harness/world"
)

type params struct {
	Stakes    []int64 `json:"stakes"`
	Byz       []int   `json:"byz"`  // indices of validators that vote for altered claims
	Lazy      []int   `json:"lazy"` // indices of validators that vote late
	NUsers    int     `json:"users"`
	NChains   int     `json:"chains"`
	Blocks    int     `json:"blocks"`
	Overrides bool    `json:"overrides"`
	Churn     bool    `json:"churn"`
	Outbound  bool    `json:"outbound"`
	Redeploy  string  `json:"redeploy,omitempty"` // "" | early | mid | both: bridge redeployments (redeploy.go)
}

type event struct {
	Chain    string
	Nonce    uint64
	Kind     string // deposit | batch
	Compass  string // unique id of the bridge deployment that emitted the event
	ERC20    string
	Denom    string
	Amount   sdkmath.Int
	Receiver string
	BatchN   uint64
	EthH     uint64
}

type attView struct {
	Chain    string
	Nonce    uint64
	Key      string
	Votes    []string
	Observed bool
	Claim    skywaytypes.EthereumClaim
}

type mon struct {
	rec      *fw.Recorder
	r        *rand.Rand
	w        *world.BridgeWorld
	c        *chain.Chain
	p        params
	events   map[string]map[uint64]*event // chain -> nonce -> event
	maxEv    map[string]uint64
	ethH     uint64
	epoch    map[string]int
	obsCount map[string]int // chain|epoch|nonce -> observed claims
	applied  map[string]int // chain|key -> times effect seen
	byz      map[string]bool
	voteLog  map[string]map[string]map[string]bool // chain|nonce -> claim identity -> validators whose claim tx was accepted
	lazy     map[string]bool
	tokenOf  map[string]string
	denoms   []string
	valByOp  map[string]*chain.Account
	stopped  bool
	claimedB map[string]bool
	retAt    map[string]int    // chain -> block index at which the cursor is put back
	retTo    map[string]uint64 // chain -> value
	blockNo  int
	rd       *redeployer // nil in histories without bridge redeployments
}

func (m *mon) vio(sig, msg string, wit any) { m.rec.Violation(sig, msg, wit) }

func tokKey(ch, erc string) string { return ch + "|" + strings.ToLower(erc) }

func (m *mon) attestations() map[string]*attView {
	out := map[string]*attView{}
	k := m.c.App.SkywayKeeper
	for _, ch := range m.w.Chains {
		_ = k.IterateAttestations(m.c.Ctx(), ch, false, func(key []byte, att skywaytypes.Attestation) bool {
			cl, err := k.UnpackAttestationClaim(&att)
			if err != nil {
				return false
			}
			out[ch+"|"+string(key)] = &attView{Chain: ch, Nonce: cl.GetSkywayNonce(), Key: fmt.Sprintf("%x", key), Votes: append([]string(nil), att.Votes...), Observed: att.Observed, Claim: cl}
			return false
		})
	}
	return out
}

func (m *mon) lastObserved() map[string]uint64 {
	out := map[string]uint64{}
	for _, ch := range m.w.Chains {
		n, _ := m.c.App.SkywayKeeper.GetLastObservedSkywayNonce(m.c.Ctx(), ch)
		out[ch] = n
	}
	return out
}

type powers struct {
	total sdkmath.Int
	of    map[string]int64
}

func (m *mon) powers() powers {
	ctx := m.c.Ctx()
	p := powers{of: map[string]int64{}}
	p.total, _ = m.c.App.StakingKeeper.GetLastTotalPower(ctx)
	for op, a := range m.valByOp {
		pw, _ := m.c.App.StakingKeeper.GetLastValidatorPower(ctx, a.ValAddr())
		p.of[op] = pw
	}
	return p
}

func (m *mon) bonded(a *chain.Account) bool {
	v, err := m.c.App.StakingKeeper.GetValidator(m.c.Ctx(), a.ValAddr())
	return err == nil && v.IsBonded()
}

func (m *mon) userBalances() map[string]sdkmath.Int {
	out := map[string]sdkmath.Int{}
	for _, u := range m.w.Users {
		for _, d := range m.denoms {
			out[u.Bech+"|"+d] = m.c.Balance(u.Addr, d)
		}
	}
	return out
}

func (m *mon) claimFor(v *chain.Account, ev *event, alt bool) sdk.Msg {
	compass := ev.Compass
	// every second altered claim differs from the real event only in the SPELLING of an address (letter case): it is a
	// different claim (another receiver string that does not decode, another contract string) that a lenient
	// comparison might pool with the honest one
	spelling := alt && (ev.Nonce+uint64(len(v.Name)))%2 == 0
	switch ev.Kind {
	case "batch":
		bn, erc := ev.BatchN, ev.ERC20
		if spelling {
			erc = "0x" + strings.ToUpper(strings.TrimPrefix(erc, "0x"))
		} else if alt {
			bn += 1000
		}
		return world.MsgBatchClaim(v, ev.Chain, compass, ev.Nonce, ev.EthH, bn, erc)
	default:
		amt, rcv := ev.Amount, ev.Receiver
		if spelling {
			rcv = respell(rcv)
		} else if alt {
			// what a byzantine validator wants: more coins, to itself
			amt = amt.MulRaw(1000)
			rcv = v.Bech
		}
		return world.MsgDepositClaim(v, ev.Chain, compass, ev.Nonce, ev.EthH, ev.ERC20, amt, "0x00000000000000000000000000000000000000e1", rcv)
	}
}

// respell upper-cases the last letter of an address string (mixed-case bech32 does not decode).
func respell(a string) string {
	b := []byte(a)
	for i := len(b) - 1; i >= 0; i-- {
		if b[i] >= 'a' && b[i] <= 'z' {
			b[i] -= 32
			break
		}
	}
	return string(b)
}

// claimIdentity: the claim as the remote event it reports, without the fields that name the voter.
func claimIdentity(msg sdk.Msg) string {
	switch t := msg.(type) {
	case *skywaytypes.MsgSendToPalomaClaim:
		cp := *t
		cp.Orchestrator, cp.Metadata = "", valsettypes.MsgMetadata{}
		return "deposit|" + cp.String()
	case *skywaytypes.MsgBatchSendToRemoteClaim:
		cp := *t
		cp.Orchestrator, cp.Metadata = "", valsettypes.MsgMetadata{}
		return "batch|" + cp.String()
	case *skywaytypes.MsgLightNodeSaleClaim:
		cp := *t
		cp.Orchestrator, cp.Metadata = "", valsettypes.MsgMetadata{}
		return "sale|" + cp.String()
	}
	return ""
}

func run(c fw.Case, tier string, rec *fw.Recorder) {
	var p params
	c.Decode(&p)
	r := c.Rand()
	var chains []string
	for i := 0; i < p.NChains; i++ {
		chains = append(chains, []string{"eth-main", "bnb-main"}[i])
	}
	w, err := world.NewBridgeWorld(world.BridgeOpts{Prefix: fmt.Sprintf("c02-%d", c.Seed), Stakes: p.Stakes, NUsers: p.NUsers, Chains: chains,
		FactorySubs: []string{"tka"}, CaptureLog: true})
	if w != nil && w.C != nil {
		defer w.C.Close()
	}
	if err != nil {
		rec.Inconclusive("bring-up failed: " + err.Error())
		return
	}
	m := &mon{rec: rec, r: r, w: w, c: w.C, p: p, events: map[string]map[uint64]*event{}, maxEv: map[string]uint64{}, ethH: 1000,
		epoch: map[string]int{}, obsCount: map[string]int{}, applied: map[string]int{}, byz: map[string]bool{}, voteLog: map[string]map[string]map[string]bool{}, lazy: map[string]bool{},
		tokenOf: map[string]string{}, valByOp: map[string]*chain.Account{}, claimedB: map[string]bool{}, retAt: map[string]int{}, retTo: map[string]uint64{}}
	for _, ch := range chains {
		m.events[ch] = map[uint64]*event{}
	}
	dset := map[string]bool{}
	for _, t := range w.Tokens {
		m.tokenOf[tokKey(t.ChainRef, t.ERC20)] = t.Denom
		dset[t.Denom] = true
	}
	for d := range dset {
		m.denoms = append(m.denoms, d)
	}
	sort.Strings(m.denoms)
	for i, v := range w.Vals {
		m.valByOp[v.ValBech()] = v
		for _, b := range p.Byz {
			if b == i {
				m.byz[v.Bech] = true
			}
		}
		for _, l := range p.Lazy {
			if l == i {
				m.lazy[v.Bech] = true
			}
		}
	}
	rec.Sample(map[string]any{"params": p})
	if p.Redeploy != "" {
		m.rd = newRedeployer(m, c.Seed)
		if p.Redeploy == "early" || p.Redeploy == "both" {
			m.rd.early()
		}
	}
	for b := 0; b < p.Blocks && !m.stopped; b++ {
		if b%400 == 10 {
			w.KeepAlive()
			m.block(true)
			continue
		}
		m.blockNo = b
		m.block(false)
		if p.Overrides && r.Intn(70) == 0 {
			m.override()
		}
		for _, ch := range w.Chains {
			if at, ok := m.retAt[ch]; ok && b >= at {
				delete(m.retAt, ch)
				m.overrideTo(ch, m.retTo[ch])
			}
		}
		if p.Churn && r.Intn(50) == 0 {
			m.jailSomeone()
		}
		if m.rd != nil {
			m.rd.after(b)
		}
	}
}

// override: governance nonce override at a block boundary (direct mode, authority = gov).
func (m *mon) override() {
	r := m.r
	ch := m.w.Chains[r.Intn(len(m.w.Chains))]
	last := m.lastObserved()[ch]
	var to uint64
	switch r.Intn(5) {
	case 4:
		// nasty sub-scenario: governance moves the cursor past events the validators are still voting
		// on, and puts it back a while later (the skipped events then have to be voted on again)
		for i := 0; i < 3; i++ {
			m.emitEvent()
		}
		to = last + 1 + uint64(r.Intn(3))
		m.retAt[ch] = m.blockNo + 10 + r.Intn(25)
		m.retTo[ch] = last
		m.rec.Count("override_skip_and_return", 1)
	case 0:
		to = last // same value: resets the validators' cursors while votes are pending
	case 1:
		if last > 0 {
			to = last - 1
		}
	case 2:
		to = last + 1
	default:
		to = uint64(r.Intn(int(m.maxEv[ch]) + 2))
	}
	m.overrideTo(ch, to)
}

func (m *mon) overrideTo(ch string, to uint64) {
	c := m.c
	last := m.lastObserved()[ch]
	pre := m.attestations()
	msg := &skywaytypes.MsgNonceOverrideProposal{ChainReferenceId: ch, Nonce: to}
	msg.Metadata.Creator = chain.GovAuthority()
	msg.Metadata.Signers = []string{chain.GovAuthority()}
	m.rec.Op(map[string]any{"h": c.Height, "op": "override", "chain": ch, "from": last, "to": to})
	if _, err := c.Direct(msg, c.Height, c.Time); err != nil {
		m.rec.Count("override_failed", 1)
		return
	}
	m.rec.Count("overrides", 1)
	m.epoch[ch]++
	post := m.attestations()
	for k, a := range post {
		if pa, ok := pre[k]; ok && a.Observed != pa.Observed {
			m.vio("override/attestation-flipped", fmt.Sprintf("nonce override flipped attestation %s", k), nil)
		}
	}
	if got := m.lastObserved()[ch]; got != to {
		m.vio("override/not-applied", fmt.Sprintf("override to %d left cursor at %d", to, got), nil)
	}
	if to > m.maxEv[ch] {
		m.maxEv[ch] = to // the remote chain continues after the cursor
	}
}

func (m *mon) jailSomeone() {
	c, r := m.c, m.r
	v := m.w.Vals[r.Intn(len(m.w.Vals))]
	if !m.bonded(v) {
		return
	}
	m.rec.Op(map[string]any{"h": c.Height, "op": "jail", "val": v.Name})
	if err := c.App.ValsetKeeper.Jail(c.Ctx(), v.ValAddr(), "verif: jailed by workload"); err == nil {
		m.rec.Count("jailings", 1)
	}
}

func (m *mon) emitEvent() {
	m.emitEventOn(m.w.Chains[m.r.Intn(len(m.w.Chains))])
}

// emitEventOn: the bridge deployment in force on ch emits its next event.
func (m *mon) emitEventOn(ch string) {
	w, r := m.w, m.r
	m.maxEv[ch]++
	m.ethH += uint64(1 + r.Intn(4))
	ev := &event{Chain: ch, Nonce: m.maxEv[ch], Kind: "deposit", EthH: m.ethH, Compass: w.Compass[ch]}
	var toks []world.Token
	for _, t := range w.Tokens {
		if t.ChainRef == ch {
			toks = append(toks, t)
		}
	}
	t := toks[r.Intn(len(toks))]
	ev.ERC20, ev.Denom = t.ERC20, t.Denom
	if r.Intn(10) == 0 {
		ev.ERC20, ev.Denom = fmt.Sprintf("0x%040x", 0xDEAD00+r.Intn(2)), ""
	}
	ev.Amount = sdkmath.NewInt(int64(1 + r.Intn(100000)))
	ev.Receiver = w.Users[r.Intn(len(w.Users))].Bech
	if r.Intn(12) == 0 {
		ev.Receiver = "garbage"
	}
	if m.p.Outbound && r.Intn(4) == 0 {
		// executed-batch event for an open batch, if any
		bs, _ := m.c.App.SkywayKeeper.GetOutgoingTxBatches(m.c.Ctx())
		for _, b := range bs {
			key := fmt.Sprintf("%s:%d", b.TokenContract.GetAddress().Hex(), b.BatchNonce)
			if b.ChainReferenceID == ch && !m.claimedB[key] {
				m.claimedB[key] = true
				ev.Kind, ev.ERC20, ev.BatchN = "batch", b.TokenContract.GetAddress().Hex(), b.BatchNonce
				ev.Denom = m.tokenOf[tokKey(ch, ev.ERC20)]
				break
			}
		}
	}
	m.events[ch][ev.Nonce] = ev
	m.rec.Count("events_"+ev.Kind, 1)
}

type sent struct {
	v     *chain.Account
	ev    *event
	alt   bool
	bond  bool
	index int
	kind  string
	msg   sdk.Msg
}

func (m *mon) block(valsBusy bool) {
	c, r, w := m.c, m.r, m.w
	if r.Intn(4) == 0 {
		m.emitEvent()
	}
	preAtt := m.attestations()
	preLast := m.lastObserved()
	preBal := m.userBalances()
	preSupply := map[string]sdkmath.Int{}
	for _, d := range m.denoms {
		preSupply[d] = c.Supply(d)
	}
	preBatches, _ := c.App.SkywayKeeper.GetOutgoingTxBatches(c.Ctx())
	var sents []sent
	used := map[string]bool{}
	// pigeons: each validator looks up its own cursor on chain (what pigeon does) and votes for the next event
	if !valsBusy {
		for _, v := range w.Vals {
			if m.rd != nil {
				if m.rd.hold[v.Bech] {
					continue // pigeon down
				}
				if s, ok := m.rd.stragglerVote(v); ok {
					used[v.Bech] = true
					sents = append(sents, s)
					continue
				}
			}
			if m.lazy[v.Bech] && r.Intn(4) != 0 {
				continue
			}
			if r.Intn(6) == 0 {
				continue
			}
			chs := append([]string(nil), w.Chains...)
			r.Shuffle(len(chs), func(i, j int) { chs[i], chs[j] = chs[j], chs[i] })
			for _, ch := range chs {
				cur, err := c.App.SkywayKeeper.GetLastSkywayNonceByValidator(c.Ctx(), v.ValAddr(), ch)
				if err != nil {
					continue
				}
				n := cur + 1
				if r.Intn(25) == 0 {
					n = cur + uint64(r.Intn(3)) // hostile: repeat or skip ahead
				}
				ev := m.events[ch][n]
				if ev == nil {
					continue
				}
				alt := m.byz[v.Bech] && r.Intn(3) != 0
				msg := m.claimFor(v, ev, alt)
				m.rec.Op(map[string]any{"h": c.Height + 1, "op": "claim", "val": v.Name, "chain": ch, "nonce": n, "alt": alt})
				idx := c.PendingCount()
				if err := c.QueueTx(v, 0, msg); err == nil {
					used[v.Bech] = true
					sents = append(sents, sent{v: v, ev: ev, alt: alt, bond: m.bonded(v), index: idx, kind: "claim", msg: msg})
				}
				break
			}
		}
	}
	// stake churn by users and validators
	if m.p.Churn {
		for _, u := range w.Users {
			if r.Intn(25) != 0 {
				continue
			}
			v := w.Vals[r.Intn(len(w.Vals))]
			amt := sdk.NewInt64Coin(chain.Denom, int64(1+r.Intn(30))*1_000_000)
			var msg sdk.Msg = &stakingtypes.MsgDelegate{DelegatorAddress: u.Bech, ValidatorAddress: v.ValBech(), Amount: amt}
			if r.Intn(3) == 0 {
				msg = &stakingtypes.MsgUndelegate{DelegatorAddress: u.Bech, ValidatorAddress: v.ValBech(), Amount: amt}
			}
			_ = c.QueueTx(u, 0, msg)
			m.rec.Count("stake_moves", 1)
		}
		for _, v := range w.Vals {
			if used[v.Bech] || valsBusy {
				continue
			}
			switch r.Intn(60) {
			case 0:
				_ = c.QueueTx(v, 0, &stakingtypes.MsgUndelegate{DelegatorAddress: v.Bech, ValidatorAddress: v.ValBech(), Amount: sdk.NewInt64Coin(chain.Denom, int64(1+r.Intn(8))*1_000_000)})
				m.rec.Count("stake_moves", 1)
			case 1:
				_ = c.QueueTx(v, 0, &slashingtypes.MsgUnjail{ValidatorAddr: v.ValBech()})
			}
		}
	}
	// outbound transfers so that batches exist
	if m.p.Outbound && r.Intn(5) == 0 {
		u := w.Users[r.Intn(len(w.Users))]
		t := w.Tokens[r.Intn(len(w.Tokens))]
		_ = c.QueueTx(u, 0, world.MsgSend(u, t.ChainRef, "0x00000000000000000000000000000000000000aa", sdk.NewInt64Coin(t.Denom, int64(1+r.Intn(500)))))
	}
	c.Log.Drain()
	br := c.NextBlock()
	var warn []string
	for _, l := range c.Log.Drain() {
		if l.Level != "INFO" && len(warn) < 12 {
			warn = append(warn, l.String())
		}
	}
	if br.Panic != "" || br.Err != nil {
		m.rec.Inconclusive(fmt.Sprintf("block %d aborted: %s %v", br.Height, strings.SplitN(br.Panic, "\n", 2)[0], br.Err))
		m.stopped = true
		return
	}
	m.rec.Count("blocks", 1)
	for _, s := range sents {
		res := br.Txs[s.index]
		if res.OK() {
			m.rec.Count("claims_accepted", 1)
			if id := claimIdentity(s.msg); id != "" && s.ev != nil {
				// the monitor's own record of who voted for exactly which claim
				k := fmt.Sprintf("%s|%d", s.ev.Chain, s.ev.Nonce)
				if m.voteLog[k] == nil {
					m.voteLog[k] = map[string]map[string]bool{}
				}
				if m.voteLog[k][id] == nil {
					m.voteLog[k][id] = map[string]bool{}
				}
				m.voteLog[k][id][s.v.ValBech()] = true
			}
			if s.alt {
				m.rec.Count("claims_accepted_altered", 1)
			}
			if s.kind == "claim-old" {
				m.rec.Count("old_deployment_votes_accepted_after_redeployment", 1)
			}
			if !s.bond {
				m.vio("vote-from-unbonded", fmt.Sprintf("claim by %s accepted although the validator was not bonded", s.v.Name), map[string]any{"height": c.Height, "val": s.v.ValBech()})
			}
		} else {
			m.rec.Count("claims_rejected", 1)
		}
	}
	// ---- oracle ----
	post := m.attestations()
	postLast := m.lastObserved()
	pw := m.powers()
	wit := func(a *attView) map[string]any {
		return map[string]any{"height": c.Height, "chain": a.Chain, "nonce": a.Nonce, "attestation": a.Key, "votes": a.Votes, "powers": pw.of, "total_power": pw.total.String(), "claim": fmt.Sprint(a.Claim)}
	}
	newObs := map[string][]*attView{}
	for k, a := range post {
		m.rec.Eval(1)
		seen := map[string]bool{}
		for _, v := range a.Votes {
			if seen[v] {
				m.vio("duplicate-vote", fmt.Sprintf("validator %s appears more than once in the vote list of attestation %s nonce %d (%d votes)", v, a.Chain, a.Nonce, len(a.Votes)), wit(a))
				break
			}
			seen[v] = true
		}
		pa, existed := pre(preAtt, k)
		if existed && pa.Observed && !a.Observed {
			m.vio("observed-reverted", fmt.Sprintf("attestation %s went back to unobserved", k), wit(a))
		}
		if a.Observed && (!existed || !pa.Observed) {
			newObs[a.Chain] = append(newObs[a.Chain], a)
		}
	}
	expSupply := map[string]sdkmath.Int{}
	for _, d := range m.denoms {
		expSupply[d] = preSupply[d]
	}
	expBal := map[string]sdkmath.Int{}
	for k, v := range preBal {
		expBal[k] = v
	}
	for _, ch := range w.Chains {
		obs := newObs[ch]
		sort.Slice(obs, func(i, j int) bool { return obs[i].Nonce < obs[j].Nonce })
		for i, a := range obs {
			m.rec.Count("attestations_observed", 1)
			// (0) bridge deployment: nothing of a superseded deployment takes effect
			if m.rd != nil {
				m.rd.observed(ch, a, wit)
			}
			// (1) power of DISTINCT voters > 66% of total
			sum := int64(0)
			seen := map[string]bool{}
			for _, v := range a.Votes {
				if !seen[v] {
					seen[v] = true
					sum += pw.of[v]
				}
			}
			m.rec.Eval(1)
			lhs := sdkmath.NewInt(sum).MulRaw(100)
			rhs := pw.total.MulRaw(66)
			margin := lhs.Sub(rhs)
			if margin.Abs().LTE(pw.total.MulRaw(2)) {
				m.rec.Count("tallies_within_2pct_of_threshold", 1)
			}
			if !lhs.GT(rhs) {
				m.vio("observed-below-threshold", fmt.Sprintf("attestation %s nonce %d took effect with distinct voters holding %d of %s power (not > 66%%); vote list has %d entries", ch, a.Nonce, sum, pw.total, len(a.Votes)), wit(a))
			}
			// (1b) the same threshold over the validators whose ACCEPTED claim was byte-identical to the one that took
			// effect (the monitor's own log; the chain's vote list is what (1) trusts)
			if id := claimIdentity(a.Claim.(sdk.Msg)); id != "" {
				log := m.voteLog[fmt.Sprintf("%s|%d", ch, a.Nonce)]
				complete := true
				for _, v := range a.Votes {
					found := false
					for _, voters := range log {
						if voters[v] {
							found = true
						}
					}
					if !found {
						complete = false // a vote the monitor did not see being cast: do not judge this one
					}
				}
				if complete {
					same := int64(0)
					for v := range log[id] {
						same += pw.of[v]
					}
					m.rec.Eval(1)
					m.rec.Count("observed_checked_against_own_vote_log", 1)
					if !sdkmath.NewInt(same).MulRaw(100).GT(pw.total.MulRaw(66)) {
						w2 := wit(a)
						w2["validators_that_voted_for_exactly_this_claim"] = keysOf(log[id])
						m.vio("observed-without-identical-votes", fmt.Sprintf("attestation %s nonce %d took effect although the validators whose accepted claim was identical to it hold only %d of %s power; the chain's vote list has %d entries", ch, a.Nonce, same, pw.total, len(a.Votes)), w2)
					}
				} else {
					m.rec.Count("observed_with_votes_outside_own_log", 1)
				}
			}
			// (2) consecutive order, one per nonce
			want := preLast[ch] + uint64(i) + 1
			if a.Nonce != want {
				m.vio("out-of-order", fmt.Sprintf("chain %s: attestation with nonce %d took effect, expected nonce %d (cursor was %d)", ch, a.Nonce, want, preLast[ch]), wit(a))
			}
			key := fmt.Sprintf("%s|%d|%d", ch, m.epoch[ch], a.Nonce)
			m.obsCount[key]++
			if m.obsCount[key] > 1 {
				m.vio("two-claims-one-nonce", fmt.Sprintf("chain %s nonce %d: a second claim took effect between resets", ch, a.Nonce), wit(a))
			}
			// (3) expected effect
			switch cl := a.Claim.(type) {
			case *skywaytypes.MsgSendToPalomaClaim:
				if d, ok := m.tokenOf[tokKey(ch, cl.TokenContract)]; ok {
					expSupply[d] = expSupply[d].Add(cl.Amount)
					if _, ok := expBal[cl.PalomaReceiver+"|"+d]; ok {
						expBal[cl.PalomaReceiver+"|"+d] = expBal[cl.PalomaReceiver+"|"+d].Add(cl.Amount)
					}
					m.rec.Count("deposits_applied", 1)
				}
				// compare with what the remote chain really emitted
				if ev := m.events[ch][a.Nonce]; ev != nil && ev.Kind == "deposit" {
					if !ev.Amount.Equal(cl.Amount) || ev.Receiver != cl.PalomaReceiver || !strings.EqualFold(ev.ERC20, cl.TokenContract) {
						m.rec.Count("altered_claims_took_effect", 1) // allowed only if >66% really voted for it (checked above)
					}
				}
			case *skywaytypes.MsgBatchSendToRemoteClaim:
				for _, b := range preBatches {
					if b.BatchNonce == cl.BatchNonce && strings.EqualFold(b.TokenContract.GetAddress().Hex(), cl.TokenContract) {
						d := m.tokenOf[tokKey(b.ChainReferenceID, b.TokenContract.GetAddress().Hex())]
						for _, tx := range b.Transactions {
							expSupply[d] = expSupply[d].Sub(tx.Erc20Token.Amount).Sub(tx.BridgeTaxAmount)
						}
						m.rec.Count("batches_applied", 1)
					}
				}
			}
		}
		m.rec.Eval(1)
		if postLast[ch] != preLast[ch]+uint64(len(obs)) {
			m.vio("cursor-jump", fmt.Sprintf("chain %s: last observed nonce went %d -> %d while %d attestations took effect", ch, preLast[ch], postLast[ch], len(obs)), map[string]any{"height": c.Height, "warnings_in_block": warn})
		}
	}
	// effects: applied exactly once, nothing else moves bridged coins
	for _, d := range m.denoms {
		m.rec.Eval(1)
		if got := c.Supply(d); !got.Equal(expSupply[d]) {
			m.vio("effect-mismatch/supply", fmt.Sprintf("height %d: supply of %s is %s, expected %s from the attestations that took effect", c.Height, d, got, expSupply[d]), map[string]any{"height": c.Height})
			m.stopped = true
		}
	}
	if !m.p.Outbound {
		postBal := m.userBalances()
		for k, v := range expBal {
			m.rec.Eval(1)
			if !postBal[k].Equal(v) {
				m.vio("effect-mismatch/receiver", fmt.Sprintf("height %d: balance %s is %s, expected %s from the deposits that took effect", c.Height, k, postBal[k], v), map[string]any{"height": c.Height})
				m.stopped = true
			}
		}
	}
	// abstraction for distinct states: per chain (cursor - max event, #pending attestations, #votes pattern)
	var abs []string
	for _, ch := range w.Chains {
		pend := 0
		votes := 0
		for _, a := range post {
			if a.Chain == ch && !a.Observed {
				pend++
				votes += len(a.Votes)
			}
		}
		abs = append(abs, fmt.Sprintf("%s:%d:%d:%d:%d", ch, int64(m.maxEv[ch])-int64(postLast[ch]), pend, votes, m.epoch[ch]))
	}
	m.rec.Distinct(strings.Join(abs, "|") + "|" + pw.total.String())
}

func pre(m map[string]*attView, k string) (*attView, bool) { a, ok := m[k]; return a, ok }

func cases(tier string, seed int64) []fw.Case {
	var cs []fw.Case
	n, blocks := 96, 300
	if tier == "thorough" {
		n, blocks = 240, 520
	}
	type dist struct {
		stakes []int64
		byz    []int
		lazy   []int
	}
	dists := []dist{
		{[]int64{40e6, 30e6, 20e6, 10e6}, []int{2}, []int{3}},
		{[]int64{33e6, 33e6, 34e6}, nil, []int{2}},
		{[]int64{33e6, 33e6, 34e6}, []int{0}, nil},
		{[]int64{25e6, 25e6, 25e6, 25e6}, []int{3}, []int{0}},
		{[]int64{20e6, 20e6, 20e6, 20e6, 20e6}, []int{4}, []int{1}},
		{[]int64{34e6, 22e6, 22e6, 11e6, 11e6}, []int{3, 4}, nil},
		{[]int64{66e6, 34e6}, nil, []int{1}},
		{[]int64{67e6, 33e6}, []int{1}, nil},
		{[]int64{30e6, 15e6, 15e6, 10e6, 10e6, 10e6, 5e6, 3e6, 2e6}, []int{1, 6}, []int{2, 5}},
		{[]int64{34e6, 33e6, 33e6, 1e6}, []int{0}, []int{3}},
		{[]int64{50e6, 16e6, 17e6, 17e6}, []int{1}, nil},
		{[]int64{22e6, 22e6, 22e6, 17e6, 17e6}, []int{0, 3}, []int{4}},
	}
	for i := 0; i < n; i++ {
		d := dists[i%len(dists)]
		p := params{Stakes: d.stakes, Byz: d.byz, Lazy: d.lazy, NUsers: 3, NChains: 1 + i%2, Blocks: blocks,
			Overrides: i%3 != 2, Churn: i%2 == 1, Outbound: i%4 == 2}
		cs = append(cs, fw.MkCase(fmt.Sprintf("hist-%03d", i), seed*104729+int64(i), p))
	}
	// histories with bridge redeployments (redeploy.go); shorter, the interesting part is around the hand-overs
	nr, rblocks := 24, 200
	if tier == "thorough" {
		nr, rblocks = 60, 360
	}
	for i := 0; i < nr; i++ {
		d := dists[(i*5+3)%len(dists)]
		kind := []string{"both", "early", "mid"}[i%3]
		p := params{Stakes: d.stakes, Byz: d.byz, Lazy: d.lazy, NUsers: 3, NChains: 1 + (i/3)%2, Blocks: rblocks,
			Overrides: i%4 == 1, Churn: i%5 == 2, Outbound: i%8 == 7, Redeploy: kind}
		cs = append(cs, fw.MkCase(fmt.Sprintf("redeploy-%03d", i), seed*104729+1000+int64(i), p))
	}
	return cs
}

func init() {
	fw.Register(&fw.Prop{
		ID:    "C02",
		Level: "exploration",
		Rule: "seeded ABCI histories of the real app: a simulated remote chain emits deposit / executed-batch events with consecutive nonces; one pigeon per validator reads its own cursor from the chain and votes for the next event (honest), late (lazy) or for an altered claim at the same nonce (byzantine: a greedy variant, or a variant that differs only in the letter case of an address), sometimes repeating or skipping nonces; users and validators move stake, validators get jailed and unjail, governance overrides the oracle cursor down / up / to the same value while votes are pending (after which pigeons re-vote, as real pigeons do). " +
			"After every block the shadow oracle checks every attestation record (duplicate-free vote list), every attestation that took effect in the block (distinct voters' stored power*100 > 66*total, consecutive nonce, one per nonce per reset epoch, cursor advanced by exactly the number of effects) and the effects (supply and receiver balances change by exactly the observed claims). " +
			"Histories 'redeploy-*' (a fifth of the cases) additionally REDEPLOY the bridge of a chain (a newer compass with a new unique id activated through EvmKeeper.ActivateChainReferenceID at a block boundary): right at the start, before anything was observed, while validators holding <= 66 % of the power have voted for the first events of the old deployment and the others' pigeons are down, and/or 1-3 times in mid-history with votes pending; afterwards the remote chain emits events of the new deployment from nonce 1 and lagging pigeons keep voting for events of the old deployment for a while (the event after their own cursor, or the first one that had not taken effect). Added oracle: no claim that names a superseded deployment of its chain takes effect after the redeployment; the redeployment flips no attestation and leaves the cursor at 0 (a redeployment starts a new reset epoch for one-claim-per-nonce). " +
			"evaluations = oracle comparisons; distinct_nontrivial = distinct abstract oracle states (per chain: backlog, pending attestations, votes on them, reset epoch; total power)",
		Assumptions: []string{
			"stored validator powers read after a block equal the powers the end-of-block tally saw (staking's end-blocker runs before skyway's)",
			"jailing by the workload uses valset.Jail (what Paloma's own liveness flow calls); stake moves and unjail are real txs",
			"a bridge redeployment is the call the attested deployment flow ends in (EvmKeeper.ActivateChainReferenceID with a contract newer than the active one and a new unique id), made at a block boundary; the new deployment's event nonces start at 1; re-activations with a contract that is not newer are not exercised here (C13 does)",
		},
		Cases: cases,
		Run:   run,
		MinCounters: []string{"attestations_observed", "claims_accepted", "claims_accepted_altered", "deposits_applied", "overrides", "tallies_within_2pct_of_threshold", "observed_checked_against_own_vote_log",
			"redeployments_at_cursor_zero_with_pending_votes", "redeployments_after_observed_nonces_with_pending_votes", "old_deployment_votes_accepted_after_redeployment", "observed_on_redeployed_bridge"},
		TimeoutS: 1500,
	})
}

func keysOf(m map[string]bool) []string {
	var out []string
	for k := range m {
		out = append(out, k)
	}
	sort.Strings(out)
	return out
}
