//go:build verif

package c02

// Bridge REDEPLOYMENTS as a history step (round h).
//
// The statement quantifies "for each remote chain AND bridge deployment": when a new compass is
// activated on a chain (x/evm ActivateChainReferenceID with a newer contract and a new unique id,
// the call the attested deployment flow ends in) the remote side starts a NEW sequence of event
// nonces (1, 2, ...) and claims of the superseded deployment must not take effect any more.
//
// Workload: histories of kind "redeploy-*" redeploy the bridge of a chain
//   - right at the start, before anything was observed, while validators holding <= 66 % of the power
//     have already voted for the first events of the OLD deployment (the rest is held back and votes late), and/or
//   - at seed-planned block boundaries in mid-history (observed nonces > 0, votes pending).
// After a redeployment the simulated remote chain emits events of the NEW deployment from nonce 1; some
// pigeons lag: for a few blocks they keep voting for events of the OLD deployment (the event after their own
// cursor on chain, or the first one that was still pending), then they switch over.
//
// Oracle additions (everything else in block() applies unchanged, per reset epoch = per deployment):
//   - an attestation whose claim names a superseded deployment of its chain never takes effect after the redeployment,
//   - the redeployment itself flips no attestation and leaves the oracle cursor at 0 (the new deployment's
//     consecutive order starts at nonce 1).
//
// All redeployment decisions come from an own random stream, the histories without redeployments are
// bit-identical to what they were before.

import (
	"fmt"
	"math/rand"

	"verif/harness/chain"
)

type deployment struct {
	ID           string
	Events       map[uint64]*event
	LastObserved uint64 // oracle cursor when the deployment was superseded
	Height       int64  // block boundary of the redeployment
}

type redeployer struct {
	m          *mon
	rr         *rand.Rand
	gen        map[string]int
	old        map[string][]*deployment
	superseded map[string]map[string]bool // chain -> compass ids of superseded deployments
	hold       map[string]bool            // validators (bech) whose pigeon is down at the moment
	straggle   map[string]map[string]int  // chain -> validator (bech) -> old-deployment votes still to cast
	plan       map[int]bool               // block indices after which a redeployment happens
	nContract  int
}

func newRedeployer(m *mon, seed int64) *redeployer {
	rd := &redeployer{m: m, rr: rand.New(rand.NewSource(seed*7919 + 13)), gen: map[string]int{}, old: map[string][]*deployment{},
		superseded: map[string]map[string]bool{}, hold: map[string]bool{}, straggle: map[string]map[string]int{}, plan: map[int]bool{}}
	for _, ch := range m.w.Chains {
		rd.superseded[ch] = map[string]bool{}
		rd.straggle[ch] = map[string]int{}
	}
	if m.p.Redeploy == "mid" || m.p.Redeploy == "both" {
		n := 1 + rd.rr.Intn(3)
		for i := 0; i < n; i++ {
			if span := m.p.Blocks - 50; span > 0 {
				rd.plan[20+rd.rr.Intn(span)] = true
			}
		}
	}
	return rd
}

// early: the redeployment right at the start of the history. Nothing has been observed yet; validators holding at most
// 66 % of the power vote for the first events of the first deployment, the pigeons of the others are down. Then the
// bridge is redeployed and the others come back, lagging.
func (rd *redeployer) early() {
	m := rd.m
	ch := m.w.Chains[rd.rr.Intn(len(m.w.Chains))]
	for i := 0; i < 3; i++ {
		m.emitEventOn(ch)
	}
	pw := m.powers()
	order := rd.rr.Perm(len(m.w.Vals))
	sum := int64(0)
	voting := map[string]bool{}
	for _, i := range order {
		v := m.w.Vals[i]
		p := pw.of[v.ValBech()]
		if p > 0 && (sum+p)*100 <= pw.total.Int64()*66 {
			sum += p
			voting[v.Bech] = true
		}
	}
	for _, v := range m.w.Vals {
		if !voting[v.Bech] {
			rd.hold[v.Bech] = true
		}
	}
	m.rec.Op(map[string]any{"h": m.c.Height, "op": "early-phase", "chain": ch, "voting_power": sum, "total_power": pw.total.String()})
	for k := 3 + rd.rr.Intn(3); k > 0 && !m.stopped; k-- {
		m.block(false)
	}
	if m.stopped {
		return
	}
	var late []*chain.Account
	for _, v := range m.w.Vals {
		if rd.hold[v.Bech] {
			late = append(late, v)
		}
	}
	rd.hold = map[string]bool{}
	rd.redeploy(ch, late, 3)
}

// after: called after block index b of the main loop.
func (rd *redeployer) after(b int) {
	if !rd.plan[b] || rd.m.stopped {
		return
	}
	m := rd.m
	ch := m.w.Chains[rd.rr.Intn(len(m.w.Chains))]
	// votes should be pending when the bridge is replaced
	m.emitEventOn(ch)
	if rd.rr.Intn(2) == 0 {
		m.emitEventOn(ch)
		m.block(false)
		if m.stopped {
			return
		}
	}
	rd.redeploy(ch, m.w.Vals, 4)
}

// redeploy replaces the bridge of ch at the current block boundary. Each of the candidates' pigeons lags with
// probability 2/den (at least one does).
func (rd *redeployer) redeploy(ch string, lagCandidates []*chain.Account, den int) {
	m := rd.m
	c := m.c
	k := c.App.EvmKeeper
	ctx := c.Ctx()
	ci, err := k.GetChainInfo(ctx, ch)
	if err != nil {
		m.rec.Inconclusive("redeployment: chain info: " + err.Error())
		m.stopped = true
		return
	}
	sc, err := k.SaveNewSmartContract(ctx, ci.GetAbi(), ci.GetBytecode())
	if err != nil {
		m.rec.Inconclusive("redeployment: saving a newer compass contract failed: " + err.Error())
		m.stopped = true
		return
	}
	rd.nContract++
	rd.gen[ch]++
	oldID := m.w.Compass[ch]
	newID := fmt.Sprintf("compass-%s-%d", ch, rd.gen[ch]+1)
	addr := fmt.Sprintf("0x%040x", 0xC0DE200+rd.nContract)
	last := m.lastObserved()[ch]
	pre := m.attestations()
	pending, pendingVotes := 0, 0
	for _, a := range pre {
		if a.Chain == ch && !a.Observed && a.Nonce > last {
			pending++
			pendingVotes += len(a.Votes)
		}
	}
	m.rec.Op(map[string]any{"h": c.Height, "op": "redeploy", "chain": ch, "old_compass": oldID, "new_compass": newID, "contract": sc.GetId(),
		"cursor": last, "pending_attestations": pending, "votes_on_them": pendingVotes})
	if err := k.ActivateChainReferenceID(ctx, ch, sc, addr, []byte(newID)); err != nil {
		m.rec.Inconclusive("redeployment: ActivateChainReferenceID failed: " + err.Error())
		m.stopped = true
		return
	}
	if ci2, err := k.GetChainInfo(c.Ctx(), ch); err != nil || string(ci2.GetSmartContractUniqueID()) != newID {
		m.rec.Inconclusive(fmt.Sprintf("redeployment: the evm chain info of %s does not name the new compass (%v)", ch, err))
		m.stopped = true
		return
	}
	m.rec.Count("redeployments", 1)
	if last == 0 && pendingVotes > 0 {
		m.rec.Count("redeployments_at_cursor_zero_with_pending_votes", 1)
	}
	if last > 0 {
		m.rec.Count("redeployments_after_observed_nonces", 1)
		if pendingVotes > 0 {
			m.rec.Count("redeployments_after_observed_nonces_with_pending_votes", 1)
		}
	}
	// the monitor's model of the remote side
	rd.old[ch] = append(rd.old[ch], &deployment{ID: oldID, Events: m.events[ch], LastObserved: last, Height: c.Height})
	rd.superseded[ch][oldID] = true
	m.w.Compass[ch] = newID
	m.events[ch] = map[uint64]*event{}
	m.maxEv[ch] = 0
	m.epoch[ch]++
	delete(m.retAt, ch)
	delete(m.retTo, ch)
	// what the redeployment itself may and may not do
	m.rec.Eval(2)
	wit := map[string]any{"height": c.Height, "chain": ch, "old_compass": oldID, "new_compass": newID, "cursor_before": last,
		"pending_attestations": pending, "votes_on_them": pendingVotes, "skyway_latest_compass_id": c.App.SkywayKeeper.GetLatestCompassID(c.Ctx(), ch)}
	for key, a := range m.attestations() {
		if pa, ok := pre[key]; ok && a.Observed != pa.Observed {
			m.vio("redeploy/attestation-flipped", fmt.Sprintf("the redeployment of the bridge of %s flipped attestation nonce %d", ch, a.Nonce), wit)
		}
	}
	if got := m.lastObserved()[ch]; got != 0 {
		m.vio("redeploy/cursor-not-reset", fmt.Sprintf("chain %s: after the bridge was redeployed the oracle cursor is %d (was %d): the event nonces of the new deployment start at 1", ch, got, last), wit)
		// go on with what the chain says, the per-block oracle follows the chain's cursor
		m.maxEv[ch] = got
	}
	// lagging pigeons
	n := 0
	for _, v := range lagCandidates {
		if rd.rr.Intn(den) < 2 {
			rd.straggle[ch][v.Bech] = 1 + rd.rr.Intn(2)
			n++
		} else {
			delete(rd.straggle[ch], v.Bech)
		}
	}
	if n == 0 && len(lagCandidates) > 0 {
		rd.straggle[ch][lagCandidates[rd.rr.Intn(len(lagCandidates))].Bech] = 1 + rd.rr.Intn(2)
	}
	// the new bridge is in use at once
	for i := 1 + rd.rr.Intn(2); i > 0; i-- {
		m.emitEventOn(ch)
	}
}

// stragglerVote: the pigeon of v still relays events of a superseded deployment.
func (rd *redeployer) stragglerVote(v *chain.Account) (sent, bool) {
	m := rd.m
	c := m.c
	for _, ch := range m.w.Chains {
		if rd.straggle[ch][v.Bech] <= 0 || len(rd.old[ch]) == 0 {
			continue
		}
		old := rd.old[ch][len(rd.old[ch])-1]
		cur, err := c.App.SkywayKeeper.GetLastSkywayNonceByValidator(c.Ctx(), v.ValAddr(), ch)
		if err != nil {
			continue
		}
		ev := old.Events[cur+1]
		if ev == nil || rd.rr.Intn(3) == 0 {
			// the first event of the old deployment that had not taken effect
			if e2 := old.Events[old.LastObserved+1]; e2 != nil {
				ev = e2
			}
		}
		if ev == nil {
			rd.straggle[ch][v.Bech] = 0
			continue
		}
		rd.straggle[ch][v.Bech]--
		alt := m.byz[v.Bech] && rd.rr.Intn(3) != 0
		msg := m.claimFor(v, ev, alt)
		m.rec.Op(map[string]any{"h": c.Height + 1, "op": "claim-old-deployment", "val": v.Name, "chain": ch, "compass": ev.Compass, "nonce": ev.Nonce, "alt": alt, "own_cursor": cur})
		idx := c.PendingCount()
		if err := c.QueueTx(v, 0, msg); err != nil {
			continue
		}
		m.rec.Count("old_deployment_votes_sent_after_redeployment", 1)
		return sent{v: v, ev: ev, alt: alt, bond: m.bonded(v), index: idx, kind: "claim-old", msg: msg}, true
	}
	return sent{}, false
}

// observed: called for every attestation that took effect in the last block.
func (rd *redeployer) observed(ch string, a *attView, wit func(*attView) map[string]any) {
	m := rd.m
	if rd.gen[ch] == 0 {
		return
	}
	m.rec.Eval(1)
	cid := a.Claim.GetCompassID()
	if rd.superseded[ch][cid] {
		w := wit(a)
		w["claim_compass_id"] = cid
		w["current_compass_id"] = m.w.Compass[ch]
		w["redeployed_at_height"] = rd.old[ch][len(rd.old[ch])-1].Height
		w["skyway_latest_compass_id"] = m.c.App.SkywayKeeper.GetLatestCompassID(m.c.Ctx(), ch)
		m.vio("superseded-deployment-claim-took-effect", fmt.Sprintf("chain %s: a claim of the superseded bridge deployment %s (nonce %d) took effect after the bridge had been redeployed as %s", ch, cid, a.Nonce, m.w.Compass[ch]), w)
		return
	}
	if cid == m.w.Compass[ch] {
		m.rec.Count("observed_on_redeployed_bridge", 1)
	}
}
