// Package mon links all property monitors into the verifcheck binary.
package mon

import (
	_ "verif/harness/mon/c19"
)
