//go:build verif

// Package mon links all property monitors into the verifcheck binary.
package mon

import (
	_ "verif/harness/mon/c01"
	_ "verif/harness/mon/c02"
	_ "verif/harness/mon/c03"
	_ "verif/harness/mon/c04"
	_ "verif/harness/mon/c05"
	_ "verif/harness/mon/c06"
	_ "verif/harness/mon/c07"
	_ "verif/harness/mon/c08"
	_ "verif/harness/mon/c09"
	_ "verif/harness/mon/c10"
	_ "verif/harness/mon/c11"
	_ "verif/harness/mon/c12"
	_ "verif/harness/mon/c13"
	_ "verif/harness/mon/c14"
	_ "verif/harness/mon/c15"
	_ "verif/harness/mon/c16"
	_ "verif/harness/mon/c17"
	_ "verif/harness/mon/c18"
	_ "verif/harness/mon/c19"
)
