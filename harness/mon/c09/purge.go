package c09

import (
	"encoding/json"
	"fmt"

	sdk "github.com/cosmos/cosmos-sdk/types"
	schedulertypes "github.com/palomachain/paloma/v2/x/scheduler/types"

	"verif/harness/chain"
	"verif/harness/fw"
	"verif/harness/world"
)

// runPurge is a scripted long-history case the random omnibus cannot reach within a few hundred blocks:
// the relay-metrics bookkeeping (x/metrix) only starts purging once the global consensus-message id
// has passed its scoring window (1000 ids). Shape of the history:
//
//  1. honest pigeons deliver the first k messages (valset update + k-1 job executions): their assignees
//     get relay-history records with small message ids;
//  2. users flood the scheduler with multi-message transactions (burst) until the id counter has moved
//     more than the scoring window past those records, nobody relays meanwhile (a long idle stretch);
//  3. one late message is delivered and attested (the nonce cache jumps), so every validator that did
//     not relay it has a history lying entirely outside the window;
//  4. the chain runs on across the next heights = 0 mod 10 / 50 with light hostile traffic.
//
// Oracle: the same as the omnibus - no FinalizeBlock may panic or fail (m.block), plus module probes.
func runPurge(c fw.Case, p params, rec *fw.Recorder) {
	r := c.Rand()
	w, err := world.NewBridgeWorld(world.BridgeOpts{Prefix: fmt.Sprintf("c09p-%d", c.Seed), Stakes: p.Stakes, NUsers: 3, Chains: []string{"eth-main"},
		FactorySubs: []string{"tka"}, MapUgrain: true, CaptureLog: true})
	if w != nil && w.C != nil {
		defer w.C.Close()
	}
	if err != nil {
		rec.Inconclusive("bring-up failed: " + err.Error())
		return
	}
	m := &mon{rec: rec, r: r, w: w, c: w.C, p: p, evNonce: map[string]uint64{}, relayTx: map[uint64]*world.RemoteTx{}, onboardAt: -1}
	cc := m.c
	_ = cc.App.TreasuryKeeper.SetCommunityFundFee(cc.Ctx(), "0.01")
	_ = cc.App.TreasuryKeeper.SetSecurityFee(cc.Ctx(), "0.02")
	if snap, err := cc.App.ValsetKeeper.GetCurrentSnapshot(cc.Ctx()); err == nil && snap != nil {
		_ = cc.App.EvmKeeper.PublishSnapshotToAllChains(cc.Ctx(), snap, true)
	}
	rec.Sample(map[string]any{"params": p, "kind": "purge"})
	const ch = "eth-main"
	queue := world.TurnstoneQueue(ch)
	u := w.Users[0]
	def, _ := json.Marshal(map[string]string{"abi": "[]", "address": fmt.Sprintf("0x%040x", 0xBEEF01)})
	pay, _ := json.Marshal(map[string]string{"hexPayload": "c0ffee"})
	job := &schedulertypes.Job{ID: "purgejob", Routing: schedulertypes.Routing{ChainType: "evm", ChainReferenceID: ch}, Definition: def, Payload: pay, IsPayloadModifiable: true}
	if res := cc.Deliver(u, &schedulertypes.MsgCreateJob{Job: job, Metadata: world.Meta(u)}); !res.OK() {
		rec.Inconclusive("create job: " + res.Log)
		return
	}
	ids := func() []uint64 {
		var out []uint64
		for _, qm := range world.QueueMsgs(cc, queue) {
			out = append(out, qm.GetId())
		}
		return out
	}
	historyOf := func() map[string]int {
		out := map[string]int{}
		for _, v := range w.Vals {
			if h, err := cc.App.MetrixKeeper.GetValidatorHistory(cc.Ctx(), v.ValAddr()); err == nil && h != nil {
				out[v.Name] = len(h.Records)
			}
		}
		return out
	}
	// ---- 1. early deliveries
	k := 3 + r.Intn(4)
	for i := 0; i < k && !m.stopped; i++ {
		if i > 0 {
			if res := cc.Deliver(u, &schedulertypes.MsgExecuteJob{JobID: "purgejob", Metadata: world.Meta(u)}); !res.OK() {
				rec.Inconclusive("execute job: " + res.Log)
				return
			}
		}
		have := ids()
		if len(have) == 0 {
			rec.Inconclusive("no message to deliver in phase 1")
			return
		}
		id := have[0]
		m.note(fmt.Sprintf("deliver early message %d", id))
		status := uint64(1)
		if r.Intn(4) == 0 {
			status = 0
		}
		if _, err := world.DeliverMessage(cc, w.Vals, ch, 1, id, status); err != nil {
			rec.Inconclusive(fmt.Sprintf("early delivery of %d: %v", id, err))
			return
		}
		rec.Count("purge:early_delivered", 1)
	}
	early := historyOf()
	if len(early) == 0 {
		rec.Inconclusive("no relay history was recorded in phase 1")
		return
	}
	// ---- 2. burst: the id counter moves past the scoring window while nobody relays
	per := 40 + r.Intn(20)
	target := uint64(1100 + r.Intn(300))
	for !m.stopped {
		have := ids()
		if len(have) > 0 && have[len(have)-1] > target {
			break
		}
		for _, usr := range w.Users {
			var msgs []sdk.Msg
			for j := 0; j < per; j++ {
				msgs = append(msgs, &schedulertypes.MsgExecuteJob{JobID: "purgejob", Metadata: world.Meta(usr)})
			}
			if err := cc.QueueTx(usr, 0, msgs...); err == nil {
				m.note(fmt.Sprintf("%s burst of %d job executions", usr.Name, per))
			}
		}
		br := cc.NextBlock()
		rec.Eval(1)
		rec.Count("blocks", 1)
		if br.Panic != "" {
			rec.Violation(panicSignature(br.Panic), fmt.Sprintf("FinalizeBlock panicked at height %d during the burst", br.Height), map[string]any{"stack": trimStack(br.Panic), "recent_ops": m.lastOps})
			return
		}
		ok := 0
		for _, t := range br.Txs {
			if t.OK() {
				ok++
			}
		}
		if ok == 0 {
			rec.Inconclusive("burst transactions were all rejected: " + br.Txs[0].Log)
			return
		}
		rec.Count("purge:burst_txs", int64(ok))
	}
	// ---- 3. the late delivery
	have := ids()
	last := have[len(have)-1]
	m.note(fmt.Sprintf("deliver late message %d", last))
	if _, err := world.DeliverMessage(cc, w.Vals, ch, 1, last, 1); err != nil {
		rec.Inconclusive(fmt.Sprintf("late delivery of %d: %v", last, err))
		return
	}
	rec.Count("purge:late_delivered", 1)
	cache, _ := cc.App.MetrixKeeper.GetMessageNonceCache(cc.Ctx())
	if cache == nil || cache.MessageId <= 1000 {
		rec.Inconclusive("nonce cache did not pass the scoring window")
		return
	}
	// ---- 4. run across the next purge heights with light traffic
	before := historyOf()
	for b := 0; b < 24 && !m.stopped; b++ {
		m.blockNo = b
		m.block(true)
	}
	if m.stopped {
		return
	}
	after := historyOf()
	purged := 0
	for name, n := range before {
		if after[name] < n {
			purged++
		}
	}
	rec.Count("purge:validators_purged", int64(purged))
	rec.Distinct(fmt.Sprintf("purge|k=%d|early=%v|after=%v|last=%d", k, early, after, last))
	if !p.NoProbe {
		m.probe()
	}
	_ = chain.Denom
}
