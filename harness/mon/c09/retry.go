package c09

import (
	"encoding/json"
	"fmt"
	"strings"
	"time"

	evmtypes "github.com/palomachain/paloma/v2/x/evm/types"
	schedulertypes "github.com/palomachain/paloma/v2/x/scheduler/types"

	"verif/harness/chain"
	"verif/harness/fw"
	"verif/harness/world"
)

// runRetry is a scripted history for the paths of the consensus end-blocker that run only after validators
// AGREE that a relay failed: the failed logic call is re-enqueued from inside EndBlock (relayer selection,
// fee handling, id allocation all run again there, with no transaction runner around them to recover a
// panic). The random omnibus rarely gets >= 2/3 of the validators to report byte-identical failures.
//
//   - a seed-chosen MINORITY of the validators advertises the MEV trait, so jobs that enforce an MEV relay
//     have fewer eligible relayers than there are ranked validators;
//   - jobs with and without the MEV requirement are executed at block times that walk through all residues
//     (the relayer pick is time-dependent);
//   - all validators report the same execution error for the newest message, the end-blocker retries it,
//     and the retried message is failed again, up to the retry limit and one beyond.
func runRetry(c fw.Case, p params, rec *fw.Recorder) {
	r := c.Rand()
	w, err := world.NewBridgeWorld(world.BridgeOpts{Prefix: fmt.Sprintf("c09r-%d", c.Seed), Stakes: p.Stakes, NUsers: 2, Chains: []string{"eth-main"},
		FactorySubs: []string{"tka"}, MapUgrain: true, CaptureLog: true})
	if w != nil && w.C != nil {
		defer w.C.Close()
	}
	if err != nil {
		rec.Inconclusive("bring-up failed: " + err.Error())
		return
	}
	m := &mon{rec: rec, r: r, w: w, c: w.C, p: p, evNonce: map[string]uint64{}, relayTx: map[uint64]*world.RemoteTx{}, onboardAt: -1}
	cc := m.c
	_ = cc.App.TreasuryKeeper.SetCommunityFundFee(cc.Ctx(), "0.01")
	_ = cc.App.TreasuryKeeper.SetSecurityFee(cc.Ctx(), "0.02")
	rec.Sample(map[string]any{"params": p, "kind": "retry"})
	const ch = "eth-main"
	queue := world.TurnstoneQueue(ch)
	// block with a chosen time step and the omnibus verdict on it
	step := func(dt time.Duration) bool {
		br := cc.NextBlockAfter(dt)
		rec.Eval(1)
		rec.Count("blocks", 1)
		if br.Panic != "" {
			rec.Violation(panicSignature(br.Panic), fmt.Sprintf("FinalizeBlock panicked at height %d: %s", br.Height, strings.SplitN(br.Panic, "\n", 2)[0]),
				map[string]any{"height": br.Height, "stack": trimStack(br.Panic), "recent_ops": m.lastOps})
			return false
		}
		if br.Err != nil {
			rec.Violation("finalize-error/"+firstWords(br.Err.Error()), fmt.Sprintf("FinalizeBlock returned an error at height %d: %v", br.Height, br.Err), map[string]any{"height": br.Height, "recent_ops": m.lastOps})
			return false
		}
		return true
	}
	// a minority of the validators supports MEV relaying
	nMEV := 1 + r.Intn(max(1, (len(w.Vals)-1)/2))
	for i := 0; i < nMEV; i++ {
		v := w.Vals[(i*2+r.Intn(2))%len(w.Vals)]
		_ = cc.QueueTx(v, 0, world.MsgRegister(v, []string{ch}, "mev"))
		m.note(v.Name + " registers with the MEV trait")
	}
	if !step(2 * time.Second) {
		return
	}
	world.BuildSnapshot(cc)
	if snap, err := cc.App.ValsetKeeper.GetCurrentSnapshot(cc.Ctx()); err == nil && snap != nil {
		_ = cc.App.EvmKeeper.PublishSnapshotToAllChains(cc.Ctx(), snap, true)
	}
	u := w.Users[0]
	mk := func(id string, mev bool) {
		def, _ := json.Marshal(map[string]string{"abi": "[]", "address": fmt.Sprintf("0x%040x", 0xBEEF10)})
		pay, _ := json.Marshal(map[string]string{"hexPayload": "c0ffee"})
		job := &schedulertypes.Job{ID: id, Routing: schedulertypes.Routing{ChainType: "evm", ChainReferenceID: ch}, Definition: def, Payload: pay, IsPayloadModifiable: true, EnforceMEVRelay: mev}
		res := cc.Deliver(u, &schedulertypes.MsgCreateJob{Job: job, Metadata: world.Meta(u)})
		m.note(fmt.Sprintf("create job %s mev=%v ok=%v", id, mev, res.OK()))
	}
	mk("mevjob", true)
	mk("plainjob", false)
	newest := func() uint64 {
		var id uint64
		for _, qm := range world.QueueMsgs(cc, queue) {
			if tm := world.TurnstoneMsg(cc, qm); tm != nil && tm.GetSubmitLogicCall() != nil && qm.GetId() > id {
				id = qm.GetId()
			}
		}
		return id
	}
	rounds := 10
	if p.Blocks > 0 {
		rounds = p.Blocks
	}
	for round := 0; round < rounds; round++ {
		job := []string{"mevjob", "plainjob", "mevjob"}[round%3]
		// the submission itself may be refused (no eligible relayer at this very second): that is a tx failure, fine
		_ = cc.QueueTx(u, 0, &schedulertypes.MsgExecuteJob{JobID: job, Metadata: world.Meta(u)})
		m.note("execute " + job)
		if !step(time.Duration(1+r.Intn(7)) * time.Second) {
			return
		}
		before := newest()
		if before == 0 {
			rec.Count("retry:execution_refused", 1)
			continue
		}
		rec.Count("retry:executed", 1)
		// fail the message and every retry of it, one beyond the limit
		id := before
		for attempt := 0; attempt < 4 && id != 0; attempt++ {
			for _, v := range w.Vals {
				if ev, err := world.MsgEvidence(v, queue, id, &evmtypes.SmartContractExecutionErrorProof{ErrorMessage: "execution reverted"}); err == nil {
					_ = cc.QueueTx(v, 0, ev)
				}
			}
			m.note(fmt.Sprintf("all validators report a failed relay of message %d (attempt %d)", id, attempt))
			if !step(time.Duration(1+r.Intn(7)) * time.Second) {
				return
			}
			rec.Count("retry:failure_attested", 1)
			next := newest()
			if next > id {
				rec.Count("retry:message_retried_in_endblock", 1)
				rec.Distinct(fmt.Sprintf("retry|%s|attempt=%d|tsmod=%d", job, attempt, cc.Time.Unix()%5))
				id = next
			} else {
				rec.Count("retry:not_retried", 1)
				id = 0
			}
		}
	}
	if !p.NoProbe {
		m.probe()
	}
	_ = chain.Denom
}
