//go:build verif

package c09

import "runtime/debug"

func debugStack() string { return string(debug.Stack()) }
