package c09

import (
	"context"
	coreheader "cosmossdk.io/core/header"
	"fmt"
	"strings"
	"time"

	upgradetypes "cosmossdk.io/x/upgrade/types"
	"github.com/cosmos/cosmos-sdk/types/module"
	palomamodule "github.com/palomachain/paloma/v2/x/paloma"
)

// versionGate: the one deliberate stop the property allows is paloma's begin-blocker halting a node whose software
// is OLDER than the upgrade governance has completed. On throw-away forks an upgrade plan <gov> is completed the way
// x/upgrade does it (ApplyUpgrade with a registered handler), the paloma module is run with a keeper copy whose
// AppVersion is <app>, and the begin-blocker must not stop a node that is the same or a NEWER patch of the same
// major.minor line. Versions are compared here number by number (an independent three-line comparison).
// Pairs whose major.minor differ are not judged: the code stops those on purpose in both directions.
func (m *mon) versionGate() {
	c := m.c
	patches := []int{0, 1, 6, 9, 10, 11, 19, 20, 99, 100, 101}
	r := m.r
	for n := 0; n < 24; n++ {
		major, minor := 1+r.Intn(9), r.Intn(30)
		gp, ap := patches[r.Intn(len(patches))], patches[r.Intn(len(patches))]
		gov := fmt.Sprintf("v%d.%d.%d", major, minor, gp)
		if r.Intn(3) == 0 {
			gov = strings.TrimPrefix(gov, "v") // plan names are free text; the gate adds the prefix itself
		}
		app := fmt.Sprintf("v%d.%d.%d", major, minor, ap)
		older := ap < gp
		ctx := c.Fork(c.Height+1, c.Time.Add(2*time.Second))
		ctx = ctx.WithHeaderInfo(coreheader.Info{Height: ctx.BlockHeight(), Time: ctx.BlockTime()}) // x/upgrade records the height from the header info
		c.App.UpgradeKeeper.SetUpgradeHandler(gov, func(_ context.Context, _ upgradetypes.Plan, vm module.VersionMap) (module.VersionMap, error) {
			return vm, nil
		})
		if err := c.App.UpgradeKeeper.ApplyUpgrade(ctx, upgradetypes.Plan{Name: gov, Height: ctx.BlockHeight()}); err != nil {
			m.rec.Count("version_gate_setup_failed", 1)
			continue
		}
		if nm, h, _ := c.App.UpgradeKeeper.GetLastCompletedUpgrade(ctx); nm != gov || h == 0 {
			m.rec.Count("version_gate_setup_failed", 1)
			continue
		}
		k := c.App.PalomaKeeper
		k.AppVersion = app
		mod := palomamodule.NewAppModule(c.App.AppCodec(), k, c.App.AccountKeeper, c.App.BankKeeper)
		ctx2 := ctx.WithBlockHeight(ctx.BlockHeight() + 1)
		m.rec.Eval(1)
		m.rec.Count("version_gate_probes", 1)
		perr, stack := safeCall(mod.BeginBlock, ctx2)
		stopped := stack != "" || perr != nil
		switch {
		case stopped && !older:
			m.rec.Violation("version-gate/stops-software-that-is-not-older", fmt.Sprintf("paloma BeginBlock stopped a node running %s after governance completed upgrade %q (same major.minor, patch %d >= %d): %s", app, gov, ap, gp, strings.SplitN(stack, "\n", 2)[0]),
				map[string]any{"completed_upgrade": gov, "app_version": app, "stack": trimStack(stack)})
		case stopped:
			m.rec.Count("version_gate_stopped_older_software", 1)
		case older:
			m.rec.Count("version_gate_let_older_software_pass", 1) // not an abort; counted, not judged by this property
		default:
			m.rec.Count("version_gate_passed_same_or_newer", 1)
		}
		m.rec.Distinct(fmt.Sprintf("vgate|%v|%d-%d|%v", strings.HasPrefix(gov, "v"), len(fmt.Sprint(gp)), len(fmt.Sprint(ap)), older))
	}
}
