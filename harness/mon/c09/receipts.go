package c09

import (
	"encoding/json"
	"fmt"
	"strings"

	"github.com/ethereum/go-ethereum/common"
	ethtypes "github.com/ethereum/go-ethereum/core/types"
	"github.com/ethereum/go-ethereum/crypto"
	evmtypes "github.com/palomachain/paloma/v2/x/evm/types"
	schedulertypes "github.com/palomachain/paloma/v2/x/scheduler/types"

	"verif/harness/fw"
	"verif/harness/world"
)

// runReceipts is a scripted history for the SUCCESS path of attestation: all validators honestly report the same
// remote transaction with a successful receipt, so the attesters read the receipt's logs inside the consensus
// end-blocker. The receipt contents are what a remote chain (and a user-written contract constructor) controls:
// logs without topics (anonymous events), foreign events, the expected event with short / empty / oversized data,
// many logs. Delivered for user-contract deployments and for logic calls.
func runReceipts(c fw.Case, p params, rec *fw.Recorder) {
	r := c.Rand()
	w, err := world.NewBridgeWorld(world.BridgeOpts{Prefix: fmt.Sprintf("c09x-%d", c.Seed), Stakes: p.Stakes, NUsers: 2, Chains: []string{"eth-main"},
		FactorySubs: []string{"tka"}, MapUgrain: true, CaptureLog: true})
	if w != nil && w.C != nil {
		defer w.C.Close()
	}
	if err != nil {
		rec.Inconclusive("bring-up failed: " + err.Error())
		return
	}
	defer func() { world.ReceiptHook = nil }()
	m := &mon{rec: rec, r: r, w: w, c: w.C, p: p, evNonce: map[string]uint64{}, relayTx: map[uint64]*world.RemoteTx{}, onboardAt: -1}
	cc := m.c
	_ = cc.App.TreasuryKeeper.SetCommunityFundFee(cc.Ctx(), "0.01")
	_ = cc.App.TreasuryKeeper.SetSecurityFee(cc.Ctx(), "0.02")
	if snap, err := cc.App.ValsetKeeper.GetCurrentSnapshot(cc.Ctx()); err == nil && snap != nil {
		_ = cc.App.EvmKeeper.PublishSnapshotToAllChains(cc.Ctx(), snap, true)
	}
	// governance names the contract deployer of the chain (needed for user contract deployments)
	_ = cc.App.EvmKeeper.SetSmartContractDeployer(cc.Ctx(), "eth-main", "0x00000000000000000000000000000000000d3b10")
	rec.Sample(map[string]any{"params": p, "kind": "receipts"})
	const ch = "eth-main"
	queue := world.TurnstoneQueue(ch)
	u := w.Users[0]
	// the first valset update goes out normally so that a snapshot is live on the chain
	for _, qm := range world.QueueMsgs(cc, queue) {
		if tm := world.TurnstoneMsg(cc, qm); tm != nil && tm.GetUpdateValset() != nil {
			if _, err := world.DeliverMessage(cc, w.Vals, ch, 1, qm.GetId(), 1); err != nil {
				rec.Count("receipts:valset_delivery_failed", 1)
			}
			break
		}
	}
	deployed := common.HexToHash("0x" + strings.Repeat("00", 31) + "01") // placeholder, replaced below if the ABI knows the event
	if ev, ok := evmContractDeployedTopic(); ok {
		deployed = ev
	}
	variants := []struct {
		name string
		logs func() []*ethtypes.Log
	}{
		{"log-without-topics", func() []*ethtypes.Log { return []*ethtypes.Log{{Address: common.HexToAddress("0x01"), Topics: nil, Data: []byte{1, 2, 3}}} }},
		{"log-without-topics+expected-event", func() []*ethtypes.Log {
			return []*ethtypes.Log{{Address: common.HexToAddress("0x01"), Topics: []common.Hash{}}, {Address: common.HexToAddress("0x02"), Topics: []common.Hash{deployed}, Data: make([]byte, 64)}}
		}},
		{"expected-event-empty-data", func() []*ethtypes.Log { return []*ethtypes.Log{{Address: common.HexToAddress("0x02"), Topics: []common.Hash{deployed}, Data: nil}} }},
		{"expected-event-short-data", func() []*ethtypes.Log { return []*ethtypes.Log{{Address: common.HexToAddress("0x02"), Topics: []common.Hash{deployed}, Data: []byte{0xff}}} }},
		{"expected-event-oversized-data", func() []*ethtypes.Log { return []*ethtypes.Log{{Address: common.HexToAddress("0x02"), Topics: []common.Hash{deployed}, Data: make([]byte, 70_000)}} }},
		{"foreign-events", func() []*ethtypes.Log {
			var out []*ethtypes.Log
			for i := 0; i < 40; i++ {
				out = append(out, &ethtypes.Log{Address: common.BigToAddress(common.Big1), Topics: []common.Hash{common.BigToHash(common.Big2), common.BigToHash(common.Big3)}, Data: []byte{byte(i)}})
			}
			return out
		}},
		{"no-logs", func() []*ethtypes.Log { return []*ethtypes.Log{} }},
	}
	r.Shuffle(len(variants), func(i, j int) { variants[i], variants[j] = variants[j], variants[i] })
	newest := func(pred func(*evmtypes.Message) bool) uint64 {
		var id uint64
		for _, qm := range world.QueueMsgs(cc, queue) {
			if tm := world.TurnstoneMsg(cc, qm); tm != nil && pred(tm) && qm.GetId() > id {
				id = qm.GetId()
			}
		}
		return id
	}
	deliver := func(what, variant string, id uint64) bool {
		m.note(fmt.Sprintf("deliver %s message %d with receipt variant %s", what, id, variant))
		_, err := world.DeliverMessage(cc, w.Vals, ch, 1, id, 1)
		rec.Eval(1)
		if err != nil && strings.Contains(err.Error(), "block failed:") {
			stack := strings.TrimPrefix(err.Error(), "block failed: ")
			rec.Violation(panicSignature(stack), fmt.Sprintf("FinalizeBlock failed while %s message %d was attested with receipt variant %q: %s", what, id, variant, strings.SplitN(stack, "\n", 2)[0]),
				map[string]any{"stack": trimStack(stack), "receipt_variant": variant, "recent_ops": m.lastOps})
			return false
		}
		if err != nil {
			rec.Count("receipts:delivery_incomplete/"+what, 1) // a refused step of the delivery is not an abort
		} else {
			rec.Count("receipts:delivered/"+what, 1)
			rec.Distinct("receipt|" + what + "|" + variant)
		}
		return true
	}
	def, _ := json.Marshal(map[string]string{"abi": "[]", "address": fmt.Sprintf("0x%040x", 0xBEEF20)})
	pay, _ := json.Marshal(map[string]string{"hexPayload": "c0ffee"})
	job := &schedulertypes.Job{ID: "rcptjob", Routing: schedulertypes.Routing{ChainType: "evm", ChainReferenceID: ch}, Definition: def, Payload: pay, IsPayloadModifiable: true}
	cc.Deliver(u, &schedulertypes.MsgCreateJob{Job: job, Metadata: world.Meta(u)})
	for i, v := range variants {
		logs := v.logs
		world.ReceiptHook = func(rc *ethtypes.Receipt) { rc.Logs = logs() }
		// a user contract: upload, deploy to the chain, deliver the deployment
		up := cc.Deliver(u, &evmtypes.MsgUploadUserSmartContractRequest{Metadata: world.Meta(u), Title: fmt.Sprintf("c%d", i),
			AbiJson: `[{"inputs":[],"stateMutability":"nonpayable","type":"constructor"}]`, Bytecode: "0x6001", ConstructorInput: ""})
		if up.OK() {
			var contractID uint64
			if cs, err := cc.App.EvmKeeper.UserSmartContracts(cc.Ctx(), u.ValBech()); err == nil {
				for _, sc := range cs {
					if sc.Id > contractID {
						contractID = sc.Id
					}
				}
			}
			if dres := cc.Deliver(u, &evmtypes.MsgDeployUserSmartContractRequest{Metadata: world.Meta(u), Id: contractID, TargetChain: ch}); !dres.OK() {
				rec.Count("receipts:deploy_refused: "+dres.Log, 1)
			}
			if id := newest(func(tm *evmtypes.Message) bool { return tm.GetUploadUserSmartContract() != nil }); id != 0 {
				if !deliver("deploy_contract", v.name, id) {
					return
				}
			} else {
				rec.Count("receipts:no_deploy_message", 1)
			}
		} else {
			rec.Count("receipts:upload_refused", 1)
		}
		// a logic call
		cc.Deliver(u, &schedulertypes.MsgExecuteJob{JobID: "rcptjob", Metadata: world.Meta(u)})
		if id := newest(func(tm *evmtypes.Message) bool { return tm.GetSubmitLogicCall() != nil }); id != 0 {
			if !deliver("submit_logic_call", v.name, id) {
				return
			}
		}
	}
	world.ReceiptHook = nil
	if !p.NoProbe {
		m.probe()
	}
}

// evmContractDeployedTopic: the topic of compass' ContractDeployed event, if the hard-coded signature is still what the
// code under test uses (otherwise a placeholder is used and the "expected event" variants are merely foreign events).
func evmContractDeployedTopic() (common.Hash, bool) {
	return crypto.Keccak256Hash([]byte("ContractDeployed(address,address,uint256)")), true
}
