//go:build verif

// Package c09: begin- and end-of-block processing never aborts.
//
// Omnibus histories of the real application in which every sender-controlled value is drawn from
// hostile generators and simply stays in the state if (and only if) the chain accepted the
// transaction; the oracle is recover()+error check around FinalizeBlock, plus direct probing of
// every Paloma module's BeginBlock/EndBlock on throw-away forks at rare height classes.
package c09

import (
	"context"
	"encoding/json"
	"fmt"
	stakingtypes "github.com/cosmos/cosmos-sdk/x/staking/types"
	"math"
	"math/big"
	"math/rand"
	"regexp"
	"strings"
	"time"

	sdkmath "cosmossdk.io/math"
	codectypes "github.com/cosmos/cosmos-sdk/codec/types"
	sdk "github.com/cosmos/cosmos-sdk/types"

	consensustypes "github.com/palomachain/paloma/v2/x/consensus/types"
	evmtypes "github.com/palomachain/paloma/v2/x/evm/types"
	palomatypes "github.com/palomachain/paloma/v2/x/paloma/types"
	schedulertypes "github.com/palomachain/paloma/v2/x/scheduler/types"
	skywaytypes "github.com/palomachain/paloma/v2/x/skyway/types"
	treasurytypes "github.com/palomachain/paloma/v2/x/treasury/types"
	valsettypes "github.com/palomachain/paloma/v2/x/valset/types"

	"verif/harness/chain"
	"verif/harness/fw"
	"verif/harness/world"
)

type params = Params

// Params of one omnibus history (exported: the determinism monitor C08 drives the same workload).
type Params struct {
	Stakes     []int64 `json:"stakes"`
	NChains    int     `json:"chains"`
	Blocks     int     `json:"blocks"`
	Focus      string  `json:"focus"` // weights profile: mixed | consensus | skyway | fees | gov
	Hostile    int     `json:"hostile_pct"`
	UseLevelDB bool    `json:"leveldb,omitempty"`
	NoProbe    bool    `json:"no_probe,omitempty"`
	Kind       string  `json:"kind,omitempty"` // "" = random omnibus history; "purge" = scripted long-idle history (purge.go)
	// HonestValsetAt > 0: at that block the pending validator-set update of the first chain is delivered by honest
	// pigeons (so a snapshot is live on the chain), ten blocks later a user moves stake (so the next snapshot
	// differs): from then on batch builds trigger just-in-time valset updates through the event bus
	HonestValsetAt int `json:"honest_valset_at,omitempty"`
	// StartUnix: genesis time of the history (0: harness default). Month ends and daylight-saving switches are where
	// calendar arithmetic on block time depends on the zone it is done in.
	StartUnix int64 `json:"start_unix,omitempty"`
}

// Hooks let another monitor observe the omnibus history block by block.
type Hooks struct {
	// AfterBringUp is called once the world is up.
	AfterBringUp func(w *world.BridgeWorld)
	// AfterBlock is called after every committed block with its result and the raw txs it contained.
	AfterBlock func(w *world.BridgeWorld, br *chain.BlockResult, blockNo int)
	// OnBlockFailure, when set, is called INSTEAD of recording a C09 violation when FinalizeBlock panics or
	// fails (monitors of other properties that reuse the workload: a block failure is not theirs to report).
	OnBlockFailure func(blockNo int, height int64, signature, message string)
}

type mon struct {
	rec        *fw.Recorder
	r          *rand.Rand
	w          *world.BridgeWorld
	c          *chain.Chain
	p          params
	evNonce    map[string]uint64
	jobs       []string
	stopped    bool
	relayTx    map[uint64]*world.RemoteTx
	lastOps    []string
	hooks      Hooks
	blockNo    int
	extra      []string         // chains onboarded by governance during the history (validators register late)
	lightNodes []*chain.Account // fresh accounts that get licences and activate them
	onboardAt  int
}

var paloFrame = regexp.MustCompile(`github\.com/palomachain/paloma/v2/([^\s(]+(?:\(\*\w+\)\.\w+)?)`)

func panicSignature(stack string) string {
	first := strings.SplitN(stack, "\n", 2)[0]
	cls := "other"
	switch {
	case strings.Contains(first, "nil pointer"):
		cls = "nil-deref"
	case strings.Contains(first, "index out of range"), strings.Contains(first, "slice bounds"):
		cls = "index-out-of-range"
	case strings.Contains(first, "out of bound"), strings.Contains(first, "overflow"):
		cls = "integer-overflow"
	case strings.Contains(first, "divide by zero"), strings.Contains(first, "division by zero"):
		cls = "div-by-zero"
	}
	fn := "unknown"
	for _, m := range paloFrame.FindAllStringSubmatch(stack, -1) {
		f := m[1]
		if strings.Contains(f, "harness") || strings.HasSuffix(f, ".go") || strings.Contains(f, ".go:") {
			continue
		}
		if strings.HasPrefix(f, "app.") {
			continue
		}
		fn = f
		break
	}
	return fmt.Sprintf("panic/%s/%s", cls, fn)
}

func (m *mon) hostile() bool { return m.r.Intn(100) < m.p.Hostile }

func (m *mon) u64() uint64 {
	vals := []uint64{0, 1, 2, 21000, 300000, 1 << 31, 1<<32 - 1, 1 << 32, 1<<63 - 1, 1 << 63, 1<<63 + 1, math.MaxUint64 - 1, math.MaxUint64}
	if m.hostile() {
		return vals[m.r.Intn(len(vals))]
	}
	return uint64(100000 + m.r.Intn(400000))
}

func (m *mon) decStr() string {
	vals := []string{"0", "0.000000000000000001", "1", "1.1", "2.5", "1000000000000", "100000000000000000000", "340282366920938463463374607431768211456", "115792089237316195423570985008687907853269984665640564039457584007913129639935", "-1", "abc", "", "1e3", "0.1.1"}
	if m.hostile() {
		return vals[m.r.Intn(len(vals))]
	}
	return []string{"1.1", "1.25", "1.5", "0.9"}[m.r.Intn(4)]
}

func (m *mon) bytesN() []byte {
	sizes := []int{0, 1, 4, 31, 32, 33, 64, 1024}
	n := sizes[m.r.Intn(len(sizes))]
	if m.hostile() && m.r.Intn(10) == 0 {
		n = 200_000
	}
	b := make([]byte, n)
	m.r.Read(b)
	return b
}

func (m *mon) note(s string) {
	m.lastOps = append(m.lastOps, fmt.Sprintf("h%d %s", m.c.Height+1, s))
	if len(m.lastOps) > 40 {
		m.lastOps = m.lastOps[len(m.lastOps)-40:]
	}
	m.rec.Op(map[string]any{"h": m.c.Height + 1, "op": s})
}

func run(c fw.Case, tier string, rec *fw.Recorder) {
	var p params
	c.Decode(&p)
	if p.Kind == "purge" {
		runPurge(c, p, rec)
		return
	}
	if p.Kind == "retry" {
		runRetry(c, p, rec)
		return
	}
	if p.Kind == "receipts" {
		runReceipts(c, p, rec)
		return
	}
	Drive(c, p, rec, Hooks{})
}

// Drive runs one omnibus history.
func Drive(c fw.Case, p Params, rec *fw.Recorder, hooks Hooks) {
	r := c.Rand()
	chains := []string{"eth-main", "bnb-main"}[:p.NChains]
	w, err := world.NewBridgeWorld(world.BridgeOpts{Prefix: fmt.Sprintf("c09-%d", c.Seed), Stakes: p.Stakes, NUsers: 3, Chains: chains,
		FactorySubs: []string{"tka"}, MapUgrain: true, CaptureLog: true, UseLevelDB: p.UseLevelDB, StartTime: startTime(p.StartUnix)})
	if w != nil && w.C != nil {
		defer w.C.Close()
	}
	if err != nil {
		rec.Inconclusive("bring-up failed: " + err.Error())
		return
	}
	m := &mon{rec: rec, r: r, w: w, c: w.C, p: p, evNonce: map[string]uint64{}, relayTx: map[uint64]*world.RemoteTx{}, hooks: hooks}
	// governance sets the treasury fees a live network has (needed for fee-paying messages)
	_ = m.c.App.TreasuryKeeper.SetCommunityFundFee(m.c.Ctx(), "0.01")
	_ = m.c.App.TreasuryKeeper.SetSecurityFee(m.c.Ctx(), "0.02")
	// the first valset publication (metrics exist now)
	if snap, err := m.c.App.ValsetKeeper.GetCurrentSnapshot(m.c.Ctx()); err == nil && snap != nil {
		_ = m.c.App.EvmKeeper.PublishSnapshotToAllChains(m.c.Ctx(), snap, true)
	}
	m.onboardAt = 60 + r.Intn(180)
	rec.Sample(map[string]any{"params": p})
	if hooks.AfterBringUp != nil {
		hooks.AfterBringUp(w)
	}
	for b := 0; b < p.Blocks && !m.stopped; b++ {
		m.blockNo = b
		if b == m.onboardAt {
			m.onboardChains()
		}
		if p.HonestValsetAt > 0 && b == p.HonestValsetAt {
			m.honestValset()
		}
		if p.HonestValsetAt > 0 && b == p.HonestValsetAt+10 {
			u, v := w.Users[0], w.Vals[len(w.Vals)-1]
			_ = m.c.QueueTx(u, 0, &stakingtypes.MsgDelegate{DelegatorAddress: u.Bech, ValidatorAddress: v.ValBech(), Amount: sdk.NewInt64Coin(chain.Denom, 4_000_000)})
			m.note("user0 delegates 4 GRAIN to " + v.Name)
		}
		if b%300 == 5 {
			w.KeepAlive()
			m.block(true)
		} else {
			m.block(false)
		}
		if b%64 == 17 && !m.stopped && !p.NoProbe {
			m.probe()
			if b == 17 {
				m.versionGate()
			}
		}
	}
	for k, n := range m.c.Log.Distinct() {
		if strings.HasPrefix(k, "WARN") || strings.HasPrefix(k, "ERROR") {
			rec.Count("log:"+k, int64(n))
			rec.Distinct("logline|" + k)
		}
	}
}

// honestValset: honest pigeons deliver the oldest pending validator-set update of the first chain.
func (m *mon) honestValset() {
	ch := m.w.Chains[0]
	chainID := map[string]uint64{"eth-main": 1, "bnb-main": 56}[ch]
	for _, qm := range world.QueueMsgs(m.c, world.TurnstoneQueue(ch)) {
		if tm := world.TurnstoneMsg(m.c, qm); tm != nil && tm.GetUpdateValset() != nil {
			m.note(fmt.Sprintf("honest delivery of valset update %d on %s", qm.GetId(), ch))
			if _, err := world.DeliverMessage(m.c, m.w.Vals, ch, chainID, qm.GetId(), 1); err == nil {
				m.rec.Count("valset_updates_delivered_honestly", 1)
			} else {
				m.rec.Count("valset_update_delivery_failed", 1)
				m.note("delivery failed: " + err.Error())
			}
			return
		}
	}
	m.rec.Count("valset_update_none_pending", 1)
}

func startTime(unix int64) time.Time {
	if unix == 0 {
		return time.Time{}
	}
	return time.Unix(unix, 0).UTC()
}

func (m *mon) weight(kind string) int {
	base := map[string]int{"consensus": 10, "skyway": 10, "fees": 4, "gov": 2, "jobs": 6, "misc": 4}
	if m.p.Focus != "mixed" {
		base[m.p.Focus] *= 4
	}
	return base[kind]
}

func (m *mon) pickKind() string {
	kinds := []string{"consensus", "skyway", "fees", "jobs", "misc"}
	tot := 0
	for _, k := range kinds {
		tot += m.weight(k)
	}
	x := m.r.Intn(tot)
	for _, k := range kinds {
		x -= m.weight(k)
		if x < 0 {
			return k
		}
	}
	return "misc"
}

func (m *mon) block(valsBusy bool) {
	c, r, w := m.c, m.r, m.w
	type q struct {
		idx  int
		desc string
	}
	var queued []q
	send := func(a *chain.Account, desc string, msg sdk.Msg) {
		idx := c.PendingCount()
		if err := c.QueueTx(a, 0, msg); err == nil {
			queued = append(queued, q{idx, desc})
			m.note(a.Name + " " + desc)
		}
	}
	// --- users
	for _, u := range w.Users {
		switch r.Intn(12) {
		case 0:
			t := w.Tokens[r.Intn(len(w.Tokens))]
			amt := sdkmath.NewInt(int64(1 + r.Intn(1000)))
			send(u, "bridge-send", world.MsgSend(u, t.ChainRef, fmt.Sprintf("0x%040x", 0xAA00+r.Intn(3)), sdk.NewCoin(t.Denom, amt)))
		case 1:
			id := fmt.Sprintf("job%d", r.Intn(6))
			def, _ := json.Marshal(map[string]string{"abi": "[]", "address": fmt.Sprintf("0x%040x", 0xBEEF00+r.Intn(3))})
			pay, _ := json.Marshal(map[string]string{"hexPayload": fmt.Sprintf("%x", m.bytesN())})
			if m.hostile() && r.Intn(3) == 0 {
				pay = []byte(`{"hexPayload":"zz"}`)
			}
			job := &schedulertypes.Job{ID: id, Routing: schedulertypes.Routing{ChainType: "evm", ChainReferenceID: w.Chains[r.Intn(len(w.Chains))]},
				Definition: def, Payload: pay, IsPayloadModifiable: r.Intn(2) == 0, EnforceMEVRelay: r.Intn(8) == 0}
			send(u, "create-job "+id, &schedulertypes.MsgCreateJob{Job: job, Metadata: world.Meta(u)})
			m.jobs = append(m.jobs, id)
		case 2, 3:
			if len(m.jobs) > 0 {
				id := m.jobs[r.Intn(len(m.jobs))]
				var pay []byte
				if r.Intn(2) == 0 {
					pay, _ = json.Marshal(map[string]string{"hexPayload": fmt.Sprintf("%x", m.bytesN())})
				}
				send(u, "execute-job "+id, &schedulertypes.MsgExecuteJob{JobID: id, Payload: pay, Metadata: world.Meta(u)})
			}
		case 5:
			// factory token administration: the admin (user 0) mints, anybody else tries to
			d := world.FactoryDenom(w.Users[0], "tka")
			send(u, "factory-mint", world.MsgMint(u, d, sdkmath.NewInt(int64(1+r.Intn(500)))))
		case 6:
			// a licensee activates its licence (creates a vesting account whose schedule is derived from the block time)
			send(u, "licence-activate", &palomatypes.MsgRegisterLightNodeClient{Metadata: world.Meta(u)})
		case 7:
			// a licence for a fresh address (the chain creates the account with the licence), activated later by that address
			if ln := m.lightNodes; len(ln) < 8 && r.Intn(2) == 0 {
				nu := chain.NewAccount(fmt.Sprintf("ln%d", len(ln)), fmt.Sprintf("c09-lnx-%d-%d", m.p.Blocks, len(ln)))
				m.lightNodes = append(m.lightNodes, nu)
				send(u, "licence-for-activation", &palomatypes.MsgAddLightNodeClientLicense{Metadata: world.Meta(u), ClientAddress: nu.Bech,
					Amount: sdk.NewInt64Coin(chain.Denom, int64(1+r.Intn(5))*1_000_000), VestingMonths: []uint32{1, 1, 6, 12, 24}[r.Intn(5)]})
			} else if len(ln) > 0 {
				nu := ln[r.Intn(len(ln))]
				send(nu, "licence-activate", &palomatypes.MsgRegisterLightNodeClient{Metadata: world.Meta(nu)})
			}
		case 4:
			if m.hostile() {
				nu := chain.NewAccount("ln", fmt.Sprintf("c09-ln-%d-%d", c.Height, r.Intn(1000)))
				amts := []int64{0, 1, 1000000, 1 << 40}
				send(u, "licence", &palomatypes.MsgAddLightNodeClientLicense{Metadata: world.Meta(u), ClientAddress: nu.Bech,
					Amount: sdk.NewInt64Coin(chain.Denom, amts[r.Intn(len(amts))]), VestingMonths: []uint32{0, 1, 24, math.MaxUint32}[r.Intn(4)]})
			}
		}
	}
	// --- remote world events for the skyway oracle
	if r.Intn(5) == 0 {
		ch := w.Chains[r.Intn(len(w.Chains))]
		m.evNonce[ch]++
	}
	// --- pigeons: one tx per validator
	if !valsBusy {
		for _, v := range w.Vals {
			if r.Intn(5) == 0 {
				continue
			}
			kind := m.pickKind()
			if msg, desc := m.pigeonMsg(v, kind); msg != nil {
				send(v, desc, msg)
			}
		}
	}
	// --- governance (direct mode, what the proposal handlers call)
	if r.Intn(100) < m.weight("gov") {
		m.gov()
	}
	dt := 2 * time.Second
	if r.Intn(60) == 0 {
		dt = 11 * time.Minute
	}
	br := c.NextBlockAfter(dt)
	m.rec.Eval(1)
	m.rec.Count("blocks", 1)
	if m.hooks.AfterBlock != nil && br.Panic == "" && br.Err == nil {
		m.hooks.AfterBlock(w, br, m.blockNo)
	}
	for _, cls := range []int64{10, 50, 300, 303} {
		if br.Height%cls == 0 {
			m.rec.Count(fmt.Sprintf("height_class_%%%d", cls), 1)
		}
	}
	if br.Panic != "" {
		sig := panicSignature(br.Panic)
		msg := fmt.Sprintf("FinalizeBlock panicked at height %d: %s", br.Height, strings.SplitN(br.Panic, "\n", 2)[0])
		if m.hooks.OnBlockFailure != nil {
			m.hooks.OnBlockFailure(m.blockNo, br.Height, sig, msg)
		} else {
			m.rec.Violation(sig, msg, map[string]any{"height": br.Height, "stack": trimStack(br.Panic), "recent_ops": m.lastOps})
		}
		m.stopped = true
		return
	}
	if br.Err != nil {
		sig, msg := "finalize-error/"+firstWords(br.Err.Error()), fmt.Sprintf("FinalizeBlock returned an error at height %d: %v", br.Height, br.Err)
		if m.hooks.OnBlockFailure != nil {
			m.hooks.OnBlockFailure(m.blockNo, br.Height, sig, msg)
		} else {
			m.rec.Violation(sig, msg, map[string]any{"height": br.Height, "recent_ops": m.lastOps})
		}
		m.stopped = true
		return
	}
	for _, x := range queued {
		res := br.Txs[x.idx]
		kind := strings.SplitN(x.desc, " ", 2)[0]
		if res.OK() {
			m.rec.Count("accepted:"+kind, 1)
			m.rec.Distinct("accepted|" + x.desc)
		} else {
			m.rec.Count("rejected:"+kind, 1)
		}
	}
}

func trimStack(s string) string {
	lines := strings.Split(s, "\n")
	if len(lines) > 60 {
		lines = lines[:60]
	}
	return strings.Join(lines, "\n")
}

func firstWords(s string) string {
	f := strings.Fields(s)
	if len(f) > 6 {
		f = f[:6]
	}
	return strings.Join(f, "_")
}

// pigeonMsg picks one message for validator v.
func (m *mon) pigeonMsg(v *chain.Account, kind string) (sdk.Msg, string) {
	c, r, w := m.c, m.r, m.w
	ch := w.Chains[r.Intn(len(w.Chains))]
	queue := world.TurnstoneQueue(ch)
	switch kind {
	case "fees":
		mult := m.decStr()
		d, err := sdkmath.LegacyNewDecFromStr(mult)
		if err != nil {
			d = sdkmath.LegacyNewDec(1)
		}
		fs := &treasurytypes.RelayerFeeSetting{ValAddress: v.ValBech(), Fees: []treasurytypes.RelayerFeeSetting_FeeSetting{{Multiplicator: d, ChainReferenceId: ch}}}
		return &treasurytypes.MsgUpsertRelayerFee{Metadata: world.Meta(v), FeeSetting: fs}, "relayer-fee " + mult
	case "consensus":
		queues := []string{queue, queue, queue, world.QueueName("validators-balances", ch), world.QueueName("reference-block", ch)}
		qn := queues[r.Intn(len(queues))]
		msgs := world.QueueMsgs(c, qn)
		if len(msgs) == 0 {
			return nil, ""
		}
		qm := msgs[r.Intn(len(msgs))]
		id := qm.GetId()
		switch r.Intn(9) {
		case 0, 1:
			if sm, err := world.MsgSign(c, v, qn, id); err == nil {
				return sm, fmt.Sprintf("sign %d", id)
			}
		case 2, 3:
			val := m.u64()
			return world.MsgEstimate(v, qn, id, val), fmt.Sprintf("estimate %d", val)
		case 4:
			data := m.bytesN()
			if r.Intn(2) == 0 {
				if rtx := m.relayFor(ch, qm); rtx != nil {
					data = rtx.Hash().Bytes()
				}
			}
			vid := uint64(0)
			if s, err := c.App.ValsetKeeper.GetCurrentSnapshot(c.Ctx()); err == nil && s != nil {
				vid = s.Id
			}
			if m.hostile() {
				vid = m.u64()
			}
			return world.MsgPublicAccess(v, qn, id, data, vid), "public-access"
		case 5:
			return world.MsgErrorData(v, qn, id, m.bytesN()), "error-data"
		default:
			proof, desc := m.evidence(ch, qn, qm)
			ev := &consensustypes.MsgAddEvidence{Proof: proof, MessageID: id, QueueTypeName: qn, Metadata: world.Meta(v)}
			return ev, "evidence " + desc
		}
	case "skyway":
		bs, _ := c.App.SkywayKeeper.GetOutgoingTxBatches(c.Ctx())
		switch r.Intn(6) {
		case 0, 1:
			if len(bs) > 0 {
				b := bs[r.Intn(len(bs))]
				val := m.u64()
				return world.MsgBatchEstimate(v, b.BatchNonce, b.TokenContract.GetAddress().Hex(), val), fmt.Sprintf("batch-estimate %d", val)
			}
		case 2:
			if len(bs) > 0 {
				b := bs[r.Intn(len(bs))]
				if cm, err := world.MsgBatchConfirm(c, v, b); err == nil {
					return cm, "batch-confirm"
				}
			}
		default:
			// claim for the validator's next nonce on the chain
			cur, err := c.App.SkywayKeeper.GetLastSkywayNonceByValidator(c.Ctx(), v.ValAddr(), ch)
			if err != nil || cur+1 > m.evNonce[ch] {
				return nil, ""
			}
			n := cur + 1
			// event content is a deterministic function of (chain, nonce) so that honest validators agree
			er := rand.New(rand.NewSource(int64(n)*7919 + int64(len(ch))))
			var toks []world.Token
			for _, t := range w.Tokens {
				if t.ChainRef == ch {
					toks = append(toks, t)
				}
			}
			t := toks[er.Intn(len(toks))]
			amts := []string{"1", "1000", "340282366920938463463374607431768211455", "57896044618658097711785492504343953926634992332820282019728792003956564819968", "0"}
			amt, _ := sdkmath.NewIntFromString(amts[er.Intn(len(amts))])
			rcv := []string{w.Users[er.Intn(len(w.Users))].Bech, "", "x", chain.ModuleAddr("bank").String()}[er.Intn(4)]
			ethH := 1000 + n
			if er.Intn(4) == 0 {
				ethH = m.u64At(er)
			}
			switch er.Intn(3) {
			case 0:
				if len(bs) > 0 {
					b := bs[er.Intn(len(bs))]
					return world.MsgBatchClaim(v, ch, w.Compass[ch], n, ethH, b.BatchNonce, b.TokenContract.GetAddress().Hex()), "batch-claim"
				}
				fallthrough
			default:
				return world.MsgDepositClaim(v, ch, w.Compass[ch], n, ethH, t.ERC20, amt, "0x00000000000000000000000000000000000000e1", rcv), "deposit-claim"
			}
		}
	case "jobs", "misc":
		if len(m.extra) > 0 && r.Intn(12) == 0 {
			// the pigeon gets configured for the newly onboarded chains
			return world.MsgRegister(v, append(append([]string{}, w.Chains...), m.extra...)), "register-onboarded-chains"
		}
		switch r.Intn(3) {
		case 0:
			vers := []string{"v2.4.0", "v9.9.9", "v0.0.1", "", "garbage", "v2.4.0-rc1+build"}
			return world.MsgKeepAlive(v, vers[r.Intn(len(vers))]), "keep-alive"
		case 1:
			if m.hostile() {
				info := world.ExtInfo(v, ch)
				info.Traits = []string{"mev", "", strings.Repeat("t", 300)}[0:r.Intn(3)]
				if r.Intn(3) == 0 {
					info.Balance = []string{"", "-1", "abc", "999999999999999999999999999999999999999999"}[r.Intn(4)]
				}
				other := world.ExtInfo(v, w.Chains[0])
				infos := []*valsettypes.ExternalChainInfo{info}
				if ch != w.Chains[0] {
					infos = append(infos, other)
				} else if len(w.Chains) > 1 {
					infos = append(infos, world.ExtInfo(v, w.Chains[1]))
				}
				return &valsettypes.MsgAddExternalChainInfoForValidator{Metadata: world.Meta(v), ChainInfos: infos}, "register-chain-info"
			}
		default:
			lv := palomatypes.MsgAddStatusUpdate_Level(r.Intn(3))
			if m.hostile() && r.Intn(3) == 0 {
				lv = palomatypes.MsgAddStatusUpdate_Level([]int32{-1, 3, 7, 1 << 20}[r.Intn(4)])
			}
			return &palomatypes.MsgAddStatusUpdate{Status: "s", Level: lv, Metadata: world.Meta(v)}, "status-update"
		}
	}
	return nil, ""
}

func (m *mon) u64At(er *rand.Rand) uint64 {
	vals := []uint64{0, 1, 1 << 32, 1 << 63, math.MaxUint64}
	return vals[er.Intn(len(vals))]
}

// relayFor builds (once per message) the honest remote tx for a turnstone message.
func (m *mon) relayFor(ch string, qm consensustypes.QueuedSignedMessageI) *world.RemoteTx {
	if rtx, ok := m.relayTx[qm.GetId()]; ok {
		return rtx
	}
	c := m.c
	msg := world.TurnstoneMsg(c, qm)
	if msg == nil {
		return nil
	}
	var relayer *chain.Account
	for _, v := range m.w.Vals {
		if v.ValBech() == msg.Assignee {
			relayer = v
		}
	}
	if relayer == nil {
		return nil
	}
	vid := uint64(0)
	if s, err := c.App.ValsetKeeper.GetCurrentSnapshot(c.Ctx()); err == nil && s != nil {
		vid = s.Id
	}
	vs, err := world.ValsetOnChain(c, ch, vid)
	if err != nil {
		return nil
	}
	data, err := safeCallData(c, qm, vs)
	if err != nil {
		return nil
	}
	rtx, err := world.NewRemoteTx(relayer.EthKey, 1000, qm.GetId(), nil, data, uint64(m.r.Intn(2)))
	if err != nil {
		return nil
	}
	m.relayTx[qm.GetId()] = rtx
	return rtx
}

func safeCallData(c *chain.Chain, qm consensustypes.QueuedSignedMessageI, vs *evmtypes.Valset) (data []byte, err error) {
	defer func() {
		if e := recover(); e != nil {
			err = fmt.Errorf("calldata: %v", e)
		}
	}()
	return world.CallData(c, qm, vs, 0)
}

// evidence: a proof of a hostile or honest shape. Content is a function of the message id only, so
// that several validators can supply byte-identical evidence.
func (m *mon) evidence(ch, qn string, qm consensustypes.QueuedSignedMessageI) (*codectypes.Any, string) {
	shape := m.r.Intn(9)
	pack := func(p interface {
		Reset()
		String() string
		ProtoMessage()
	}) *codectypes.Any {
		a, _ := codectypes.NewAnyWithValue(p)
		return a
	}
	switch shape {
	case 0:
		return nil, "nil-proof"
	case 1:
		return &codectypes.Any{TypeUrl: "", Value: []byte{1, 2, 3}}, "empty-type-url"
	case 2:
		return &codectypes.Any{TypeUrl: "/palomachain.paloma.evm.TxExecutedProof", Value: []byte{0xff, 0xff, 0xff}}, "garbage-value"
	case 3:
		return pack(&evmtypes.TxExecutedProof{SerializedTX: []byte{1, 2, 3}}), "tx-garbage"
	case 4:
		return pack(&evmtypes.SmartContractExecutionErrorProof{ErrorMessage: "boom"}), "error-proof"
	case 5:
		n := []int{0, 1, 2, 50}[int(qm.GetId())%4]
		b := make([]string, n)
		for i := range b {
			b[i] = []string{"1", "0", "", "-5", "abc", "99999999999999999999999999999999"}[(int(qm.GetId())+i)%6]
		}
		return pack(&evmtypes.ValidatorBalancesAttestationRes{BlockHeight: 5, Balances: b}), fmt.Sprintf("balances-%d", n)
	case 6:
		return pack(&evmtypes.ReferenceBlockAttestationRes{BlockHeight: []uint64{0, 1, 99, math.MaxUint64}[int(qm.GetId())%4], BlockHash: []string{"", "0xabc", "zz"}[int(qm.GetId())%3]}), "reference-block"
	default:
		if rtx := m.relayFor(ch, qm); rtx != nil {
			p, err := rtx.Proof(shape == 7 && qm.GetId()%2 == 0)
			if err == nil {
				return pack(p), "tx-proof"
			}
		}
		return pack(&evmtypes.SmartContractExecutionErrorProof{ErrorMessage: "x"}), "error-proof"
	}
}

func (m *mon) gov() {
	c, r, w := m.c, m.r, m.w
	ctx := c.Ctx()
	ch := w.Chains[r.Intn(len(w.Chains))]
	switch r.Intn(6) {
	case 0:
		s := m.decStr()
		m.note("gov community-fee " + s)
		_ = c.App.TreasuryKeeper.SetCommunityFundFee(ctx, s)
	case 1:
		s := m.decStr()
		m.note("gov security-fee " + s)
		_ = c.App.TreasuryKeeper.SetSecurityFee(ctx, s)
	case 2:
		d := w.Tokens[r.Intn(len(w.Tokens))].Denom
		rate := []string{"0", "0.01", "1/3", "7/1", "0.000000000000000000000001", "100000000000000000000"}[r.Intn(6)]
		m.note("gov bridge-tax " + rate)
		_ = c.App.SkywayKeeper.SetBridgeTax(ctx, &skywaytypes.BridgeTax{Token: d, Rate: rate})
	case 3:
		// governance-set policy numbers are drawn from a plausible range (plus malformed strings that the
		// code has to cope with); absurd magnitudes chosen by governance itself are not modelled
		wt := func() string { return []string{"0", "0.1", "0.5", "1", "1.0", "2.5", "100", "abc", ""}[r.Intn(9)] }
		wts := &evmtypes.RelayWeights{Fee: wt(), Uptime: wt(), SuccessRate: wt(), ExecutionTime: wt(), FeatureSet: wt()}
		msg := &evmtypes.RelayWeightsProposal{Title: "t", Description: "d", ChainReferenceID: ch, Fee: wts.Fee, Uptime: wts.Uptime, SuccessRate: wts.SuccessRate, ExecutionTime: wts.ExecutionTime, FeatureSet: wts.FeatureSet}
		if msg.ValidateBasic() == nil {
			m.note(fmt.Sprintf("gov relay-weights %v", wts))
			_ = c.App.EvmKeeper.SetRelayWeights(ctx, ch, wts)
		}
	case 4:
		d := w.Tokens[r.Intn(len(w.Tokens))].Denom
		lim, _ := sdkmath.NewIntFromString([]string{"0", "1", "1000000", "115792089237316195423570985008687907853269984665640564039457584007913129639935"}[r.Intn(4)])
		m.note("gov transfer-limit " + lim.String())
		_ = c.App.SkywayKeeper.SetBridgeTransferLimit(ctx, &skywaytypes.BridgeTransferLimit{Token: d, Limit: lim, LimitPeriod: skywaytypes.LimitPeriod(r.Intn(5))})
	default:
		msg := &skywaytypes.MsgNonceOverrideProposal{ChainReferenceId: ch, Nonce: []uint64{0, 1, m.evNonce[ch], m.evNonce[ch] + 3}[r.Intn(4)]}
		msg.Metadata.Creator = chain.GovAuthority()
		msg.Metadata.Signers = []string{chain.GovAuthority()}
		m.note(fmt.Sprintf("gov nonce-override %d", msg.Nonce))
		_, _ = c.Direct(msg, c.Height, c.Time)
	}
	m.rec.Count("gov_actions", 1)
}

// onboardChains: governance adds two further EVM chains at once and they become active (compass
// deployed); validators register accounts for them only later, one by one - until then they miss
// two active chains (what paloma's end-blocker checks at heights = 0 mod 303).
func (m *mon) onboardChains() {
	c := m.c
	for i, ref := range []string{"arb-main", "base-main"} {
		if err := c.App.EvmKeeper.AddSupportForNewChain(c.Ctx(), ref, uint64(42161+i), 100, "0x"+strings.Repeat("cd", 32), big.NewInt(0)); err != nil {
			continue
		}
		if err := world.ActivateChain(c, ref, fmt.Sprintf("0x%040x", 0xC0DE100+i), []byte("compass-"+ref+"-1")); err != nil {
			continue
		}
		m.extra = append(m.extra, ref)
		m.note("gov onboard-chain " + ref)
		m.rec.Count("chains_onboarded", 1)
	}
}

// probe: every Paloma module's BeginBlock and EndBlock on throw-away forks at rare heights.
func (m *mon) probe() {
	c := m.c
	mods := []string{"scheduler", "consensus", "valset", "paloma", "evm", "skyway", "treasury", "metrix", "tokenfactory"}
	heights := []int64{(c.Height/10 + 1) * 10, (c.Height/50 + 1) * 50, (c.Height/300 + 1) * 300, (c.Height/303 + 1) * 303, 10_000, 15_150, 30_300, 303_000}
	for _, h := range heights {
		t := c.Time.Add(time.Duration(h-c.Height) * 2 * time.Second)
		for _, name := range mods {
			mod := c.App.ModuleManager.Modules[name]
			for _, phase := range []string{"BeginBlock", "EndBlock"} {
				var fn func(context.Context) error
				if phase == "BeginBlock" {
					if b, ok := mod.(interface{ BeginBlock(context.Context) error }); ok {
						fn = b.BeginBlock
					}
				} else if e, ok := mod.(interface{ EndBlock(context.Context) error }); ok {
					fn = e.EndBlock
				}
				if fn == nil {
					continue
				}
				ctx := c.Fork(h, t)
				m.rec.Eval(1)
				m.rec.Count("probes", 1)
				perr, pstack := safeCall(fn, ctx)
				if pstack != "" {
					m.rec.Violation(panicSignature(pstack), fmt.Sprintf("%s.%s panicked when run at height %d on the state after block %d: %s", name, phase, h, c.Height, strings.SplitN(pstack, "\n", 2)[0]),
						map[string]any{"state_height": c.Height, "probe_height": h, "module": name, "stack": trimStack(pstack), "recent_ops": m.lastOps})
				} else if perr != nil {
					m.rec.Violation("module-error/"+name+"."+phase, fmt.Sprintf("%s.%s returned an error at height %d: %v", name, phase, h, perr),
						map[string]any{"state_height": c.Height, "probe_height": h, "recent_ops": m.lastOps})
				}
			}
		}
	}
}

func safeCall(fn func(context.Context) error, ctx context.Context) (err error, stack string) {
	defer func() {
		if e := recover(); e != nil {
			stack = fmt.Sprintf("%v\n%s", e, debugStack())
		}
	}()
	return fn(ctx), ""
}

func cases(tier string, seed int64) []fw.Case {
	var cs []fw.Case
	n, blocks := 64, 340
	if tier == "thorough" {
		n, blocks = 256, 640
	}
	foci := []string{"mixed", "consensus", "skyway", "fees", "mixed", "consensus", "gov", "jobs"}
	stakes := [][]int64{{40e6, 30e6, 20e6, 10e6}, {25e6, 25e6, 25e6, 25e6}, {50e6, 30e6, 20e6}, {30e6, 20e6, 20e6, 15e6, 15e6}}
	for i := 0; i < n; i++ {
		p := params{Stakes: stakes[i%len(stakes)], NChains: 1 + i%2, Blocks: blocks, Focus: foci[i%len(foci)], Hostile: []int{30, 60, 90}[i%3]}
		if i%2 == 1 {
			p.HonestValsetAt = 70
		}
		cs = append(cs, fw.MkCase(fmt.Sprintf("omni-%03d", i), seed*15485863+int64(i), p))
	}
	np := 4
	if tier == "thorough" {
		np = 16
	}
	for i := 0; i < np; i++ {
		p := params{Stakes: stakes[i%len(stakes)], NChains: 1, Focus: "jobs", Hostile: 30, Kind: "purge"}
		cs = append(cs, fw.MkCase(fmt.Sprintf("purge-%02d", i), seed*32452843+int64(i), p))
	}
	for i := 0; i < np; i++ {
		p := params{Stakes: stakes[i%len(stakes)], NChains: 1, Focus: "jobs", Hostile: 0, Kind: "receipts"}
		cs = append(cs, fw.MkCase(fmt.Sprintf("receipts-%02d", i), seed*86028121+int64(i), p))
	}
	for i := 0; i < 2*np; i++ {
		p := params{Stakes: stakes[i%len(stakes)], NChains: 1, Focus: "jobs", Hostile: 0, Kind: "retry", Blocks: 10}
		cs = append(cs, fw.MkCase(fmt.Sprintf("retry-%02d", i), seed*49979687+int64(i), p))
	}
	return cs
}

func init() {
	fw.Register(&fw.Prop{
		ID:    "C09",
		Level: "exploration",
		Rule: "seeded omnibus ABCI histories of the real app (bridge transfers, jobs, licences; pigeons signing, estimating, relaying, attesting, claiming, confirming; governance-set fees, taxes, weights, limits, nonce overrides) in which every sender-controlled value is drawn from hostile generators (0, 1, 2^32, 2^63, 2^64-1; negative/huge/malformed decimals; nil / empty-type / garbage / wrong-type / short proofs; 0..200 kB payloads; malformed versions, addresses, balances) and stays in the state only if the chain accepted the tx; oracle = recover()+error check around every FinalizeBlock, plus BeginBlock/EndBlock of every Paloma module run on throw-away forks at the next heights = 0 mod 10/50/300/303 and at 10 000, 15 150, 30 300, 303 000; plus scripted long-idle histories (purge-NN: early honest deliveries, then a flood of > 1000 job executions nobody relays, then one late delivery, so the relay-metrics purge runs over validators whose whole history lies outside the scoring window) and scripted retry histories (retry-NN: a minority of validators advertises the MEV trait, jobs with and without the MEV requirement are executed at varying block times, all validators attest the relay failed, the end-blocker re-enqueues the call up to the retry limit) and scripted receipt histories (receipts-NN: user-contract deployments and logic calls delivered honestly with hostile receipt contents: logs without topics, the expected event with empty / short / oversized data, foreign events). " +
			"evaluations = blocks executed + module probes; distinct_nontrivial = distinct accepted (actor-kind, operation, hostile value) descriptions + distinct WARN/ERROR log lines reached (branch-coverage proxy)",
		Assumptions: []string{
			"only states reached through accepted transactions and the keeper functions governance handlers call; panics inside transaction execution are recovered by baseapp and are not violations",
			"the version gate is exercised on forks only (completed upgrade plan x application version, same major.minor line): it may stop older software, nothing else; pairs on different major.minor lines are stopped by design in both directions and are not judged",
			"stakes are bounded by realistic supply (no > 2^63 ugrain bonded)",
		},
		Cases:       cases,
		Run:         run,
		MinCounters: []string{"blocks", "probes", "accepted:evidence", "accepted:estimate", "accepted:relayer-fee", "accepted:public-access", "height_class_%300", "height_class_%303", "purge:validators_purged", "retry:message_retried_in_endblock", "version_gate_passed_same_or_newer", "version_gate_stopped_older_software", "receipts:delivered/deploy_contract", "receipts:delivered/submit_logic_call"},
		TimeoutS:    1500,
	})
}
