package c15

import (
	"fmt"
	"math/big"
	"strings"
	"time"

	sdk "github.com/cosmos/cosmos-sdk/types"
	banktypes "github.com/cosmos/cosmos-sdk/x/bank/types"
	govv1 "github.com/cosmos/cosmos-sdk/x/gov/types/v1"
	govv1beta1 "github.com/cosmos/cosmos-sdk/x/gov/types/v1beta1"

	skywaytypes "github.com/palomachain/paloma/v2/x/skyway/types"

	"verif/harness/chain"
	"verif/harness/fw"
	"verif/harness/world"
)

// govReal: a real governance round. MsgSubmitProposal (gov v1) carrying one MsgExecLegacyContent
// per content, signed by a user and delivered through ante; every validator votes yes with a
// signed MsgVote; blocks until the voting period is over and the gov end-blocker executed it.
func (x *runner) govReal(title string, contents ...govv1beta1.Content) error {
	var msgs []sdk.Msg
	for _, ct := range contents {
		m, err := legacyMsg(ct)
		if err != nil {
			return err
		}
		msgs = append(msgs, m)
	}
	st, reason, err := x.govRound(title, govv1.OptionYes, msgs)
	if err != nil {
		return err
	}
	if st != govv1.StatusPassed {
		return fmt.Errorf("proposal %q ended with status %s: %s", title, st, reason)
	}
	x.rec.Count("flow_gov_proposals_passed", 1)
	return nil
}

// govRound: submit (signed, through ante), all validators vote `vote` (signed), blocks until the
// gov end-blocker has tallied; returns the final status.
func (x *runner) govRound(title string, vote govv1.VoteOption, msgs []sdk.Msg) (govv1.ProposalStatus, string, error) {
	c := x.c
	proposer := x.users[0]
	sp, err := govv1.NewMsgSubmitProposal(msgs, sdk.NewCoins(sdk.NewInt64Coin(chain.Denom, 10_000)), proposer.Bech, "", title, "C15 flow: "+title, false)
	if err != nil {
		return 0, "", err
	}
	x.syncHeight()
	r := c.Deliver(proposer, sp)
	if !r.OK() {
		return 0, "", fmt.Errorf("submit proposal: %s", r.Log)
	}
	pidStr, ok := chain.EventAttr(r.Events, "submit_proposal", "proposal_id")
	if !ok {
		return 0, "", fmt.Errorf("no proposal id in events")
	}
	var pid uint64
	fmt.Sscanf(pidStr, "%d", &pid)
	for _, v := range x.vals {
		if err := c.QueueTx(v.Acct, 0, govv1.NewMsgVote(v.Acct.Addr, pid, vote, "")); err != nil {
			return 0, "", err
		}
	}
	br := c.NextBlock()
	if br.Panic != "" || br.Err != nil {
		return 0, "", fmt.Errorf("vote block: %s %v", br.Panic, br.Err)
	}
	for i, tr := range br.Txs {
		if !tr.OK() {
			return 0, "", fmt.Errorf("vote %d failed: %s", i, tr.Log)
		}
	}
	for i := 0; i < 40; i++ {
		p, err := c.App.GovKeeper.Proposals.Get(c.Ctx(), pid)
		if err != nil {
			return 0, "", err
		}
		switch p.Status {
		case govv1.StatusPassed, govv1.StatusFailed, govv1.StatusRejected:
			return p.Status, p.FailedReason, nil
		}
		if br := c.Skip(1); br.Panic != "" || br.Err != nil {
			return 0, "", fmt.Errorf("block: %s %v", br.Panic, br.Err)
		}
	}
	return 0, "", fmt.Errorf("proposal %d did not finish", pid)
}

// govNotPassed: a real governance round whose contents configure NOTHING: either every validator
// votes no (REJECTED), or everybody votes yes but a later message of the proposal fails (a bank
// send of more than the gov account owns) so that gov drops the whole branch (FAILED). In both
// cases gov already executed the contents once on a dropped cache context at submission.
func (x *runner) govNotPassed(title string, laterMsgFails bool, contents ...govv1beta1.Content) error {
	var msgs []sdk.Msg
	for _, ct := range contents {
		m, err := legacyMsg(ct)
		if err != nil {
			return err
		}
		msgs = append(msgs, m)
	}
	vote, want := govv1.OptionNo, govv1.StatusRejected
	if laterMsgFails {
		huge, _ := new(big.Int).SetString("1000000000000000000000000000000", 10)
		msgs = append(msgs, &banktypes.MsgSend{FromAddress: chain.GovAuthority(), ToAddress: x.users[0].Bech,
			Amount: sdk.NewCoins(sdk.NewCoin(chain.Denom, mustInt(huge)))})
		vote, want = govv1.OptionYes, govv1.StatusFailed
	}
	x.rec.Op(map[string]any{"kind": "governance-not-passed", "title": title, "later_message_fails": laterMsgFails, "height": x.c.Height + 1})
	st, reason, err := x.govRound(title, vote, msgs)
	if err != nil {
		return err
	}
	if st != want {
		return fmt.Errorf("proposal %q ended with status %s (%s), wanted %s", title, st, reason, want)
	}
	x.rec.Count("flow_gov_proposals_not_passed", 1)
	return nil
}

// roomBeforeBatch: with an empty outgoing pool, move on to the block after the next batch-building
// block if fewer than n blocks are left before it (so that the transfers of the following phase can
// be inspected and cancelled in the pool).
func (x *runner) roomBeforeBatch(n int64) error {
	if len(x.m.pending) != 0 || x.c.Height%50+n < 50 {
		return nil
	}
	for x.c.Height%50 != 0 {
		if br := x.c.Skip(1); br.Panic != "" || br.Err != nil {
			return fmt.Errorf("block: %s %v", br.Panic, br.Err)
		}
	}
	return nil
}

// runFlow: everything through the real ABCI path.
func runFlow(c fw.Case, p params, rec *fw.Recorder) {
	e, err := bringUp("c15/"+c.Name, 4, 2, 6*time.Second)
	if e.c != nil {
		defer e.c.Close()
	}
	if err != nil {
		rec.Inconclusive("bring-up: " + err.Error())
		return
	}
	x := &runner{env: e, rec: rec, r: c.Rand(), abci: true}
	r := x.r
	ch := e.c
	t := e.m.toks[1]
	k := ch.App.SkywayKeeper
	fail := func(what string, err error) {
		rec.Inconclusive(fmt.Sprintf("flow: %s: %v", what, err))
	}

	// --- configuration by a real governance round
	num, den := int64(1+r.Intn(5)), int64(3+2*r.Intn(4)) // odd denominators: rounding happens
	rateStr := fracString(bi(num), bi(den))
	limit := bi(int64(10_000 + r.Intn(5000)))
	taxEx, limEx := map[int]bool{1: true}, map[int]bool{2: true}
	if err := x.govReal("configure "+t.denom, mapContent(t), e.taxContent(t, rateStr, taxEx), e.limContent(t, limit, 1, limEx)); err != nil {
		fail("governance", err)
		return
	}
	// the proposal must have produced exactly the configuration that was voted on
	bt, err1 := k.BridgeTax(ch.Ctx(), t.denom)
	bl, err2 := k.BridgeTransferLimit(ch.Ctx(), t.denom)
	if err1 != nil || err2 != nil || bt.Rate != rateStr || !bl.Limit.BigInt().IsInt64() || bl.Limit.Int64() != limit.Int64() ||
		len(bt.ExemptAddresses) != 1 || !bt.ExemptAddresses[0].Equals(e.users[1].Addr) || len(bl.ExemptAddresses) != 1 || !bl.ExemptAddresses[0].Equals(e.users[2].Addr) {
		fail("configuration after governance", fmt.Errorf("tax=%v (%v) limit=%v (%v)", bt, err1, bl, err2))
		return
	}
	t.tax = taxCfg{set: true, num: bi(num), den: bi(den), rateStr: rateStr, exempt: taxEx}
	t.lim = limCfg{set: true, limit: limit, period: 1, exempt: limEx}

	// user 3 keeps only a few tokens (insufficient-funds scenario below): the rest goes to user 0
	keep := bi(45)
	give := new(big.Int).Sub(e.m.bal[3][1], keep)
	x.syncHeight()
	if tr := ch.Deliver(e.users[3], &banktypes.MsgSend{FromAddress: e.users[3].Bech, ToAddress: e.users[0].Bech,
		Amount: sdk.NewCoins(sdk.NewCoin(t.denom, mustInt(give)))}); !tr.OK() {
		fail("bank send", fmt.Errorf("%s", tr.Log))
		return
	}
	e.m.bal[3][1] = keep
	e.m.bal[0][1] = new(big.Int).Add(e.m.bal[0][1], give)

	// --- a proposal that is voted down: 50 % tax with the plain sender exempt, seven times the limit
	// per week with the limited senders exempt. Configures nothing.
	d1t := taxCfg{set: true, num: bi(1), den: bi(2), rateStr: "1/2", exempt: map[int]bool{0: true}}
	d1l := limCfg{set: true, limit: new(big.Int).Mul(limit, bi(7)), period: 2, exempt: map[int]bool{0: true, 1: true}}
	if err := x.govNotPassed("voted down "+t.denom, false, e.taxContent(t, d1t.rateStr, d1t.exempt), e.limContent(t, d1l.limit, d1l.period, d1l.exempt)); err != nil {
		fail("governance (voted down)", err)
		return
	}
	t.decoyTax, t.decoyLim = &d1t, &d1l
	if err := x.roomBeforeBatch(45); err != nil {
		fail("blocks", err)
		return
	}

	step := func() { x.n++ }
	a1 := bi(int64(1000 + r.Intn(1000)))
	a2 := bi(int64(100 + r.Intn(100)))
	a3 := bi(int64(300 + r.Intn(300)))
	x.send(0, t, a1) // taxed, limited
	step()
	x.send(0, t, a2)
	step()
	x.send(1, t, a3) // tax-exempt, limited
	step()
	x.send(2, t, new(big.Int).Mul(limit, bi(5))) // limit-exempt, taxed: far above the limit
	step()
	// --- a proposal that passes the vote but whose last message fails: no tax at all, no limit
	// period, the limit-exempt sender no longer exempt. Configures nothing.
	d2t := taxCfg{set: true, num: bi(0), den: bi(1), rateStr: "0", exempt: map[int]bool{}}
	d2l := limCfg{set: true, limit: bi(1), period: 0, exempt: map[int]bool{}}
	if err := x.govNotPassed("later message fails "+t.denom, true, e.taxContent(t, d2t.rateStr, d2t.exempt), e.limContent(t, d2l.limit, d2l.period, d2l.exempt)); err != nil {
		fail("governance (failed)", err)
		return
	}
	t.decoyTax, t.decoyLim = &d2t, &d2l
	used := new(big.Int).Add(new(big.Int).Add(a1, a2), a3)
	rem := new(big.Int).Sub(limit, used)
	x.send(0, t, new(big.Int).Add(rem, bi(1))) // one over: rejected by the real baseapp, usage must not move
	step()
	x.send(3, t, bi(45)) // fits the limit, but 45 + tax > 45: bank fails AFTER the keeper stored the usage -> tx must roll back
	step()
	// two transfers in ONE tx: the first fits, the second does not -> the whole tx fails and the
	// allowance consumed by the first message must be given back (real baseapp atomicity)
	{
		x.syncHeight()
		o := opRec{N: x.n, Kind: "multi-send", H: x.h, User: 0, Tok: t.idx, Amount: "10 then " + rem.String()}
		x.logOp(o)
		b := x.observe(0, t)
		mk := func(a *big.Int) sdk.Msg {
			return &skywaytypes.MsgSendToRemote{EthDest: ethDest, Amount: sdk.Coin{Denom: t.denom, Amount: mustInt(a)}, ChainReferenceId: chainRef, Metadata: world.Meta(e.users[0])}
		}
		tr := ch.Deliver(e.users[0], mk(bi(10)), mk(rem))
		a := x.observe(0, t)
		rec.Eval(1)
		wit := map[string]any{"before": b, "after": a, "log": firstLine(tr.Log)}
		if tr.OK() {
			x.violate("limit/window-total-exceeded", fmt.Sprintf("tx with transfers 10 and %s accepted although only %s were left in the window", rem, rem), o, t, wit)
			return
		}
		rec.Count("flow_multi_msg_tx_rejected", 1)
		if !sameUsage(b, a) {
			x.violate("limit/rejected-send-changed-usage", "a failed tx (second MsgSendToRemote over the limit) left the allowance of its first message consumed", o, t, wit)
		}
		if b.Sender.Cmp(a.Sender) != 0 || b.Module.Cmp(a.Module) != 0 {
			x.violate("send/rejected-send-moved-funds", "a failed tx with two MsgSendToRemote moved funds", o, t, wit)
		}
		step()
	}
	x.send(0, t, rem) // fills the window exactly
	step()
	x.send(0, t, bi(1)) // window full
	step()
	x.send(2, t, bi(7)) // exempt sender still unrestricted
	step()
	if x.stop {
		return
	}
	rec.Count("flow_sends_through_baseapp", 9)

	// --- cancel (before and after a rate change by a second governance round)
	ids := x.m.pendingIDs()
	if len(ids) < 5 {
		fail("pending transfers", fmt.Errorf("only %d pending", len(ids)))
		return
	}
	x.cancel(0, ids[1]) // a2
	step()
	x.cancel(1, ids[0]) // not the owner
	step()
	rate2 := decimalString(bi(int64(5+r.Intn(90))), 2)
	n2, _ := new(big.Int).SetString(strings.Replace(rate2, "0.", "", 1), 10)
	if err := x.govReal("new rate "+t.denom, e.taxContent(t, rate2, map[int]bool{})); err != nil {
		fail("governance 2", err)
		return
	}
	t.tax = taxCfg{set: true, num: n2, den: bi(100), rateStr: rate2, exempt: map[int]bool{}}
	t.decoyTax = nil
	x.cancel(0, ids[0]) // a1: refund must be what was paid under the OLD rate
	step()
	x.send(1, t, bi(3)) // user 1 lost the exemption; the window is still full -> rejected
	step()
	if x.stop {
		return
	}

	// --- batch: built by the skyway end-blocker at the next height divisible by 50
	contract, _ := skywaytypes.NewEthAddress(t.erc20)
	for (ch.Height % 50) != 0 {
		if br := ch.Skip(1); br.Panic != "" || br.Err != nil {
			fail("block", fmt.Errorf("%s %v", br.Panic, br.Err))
			return
		}
	}
	batch, err := k.GetLastOutgoingBatchByTokenType(ch.Ctx(), *contract)
	if err != nil || batch == nil {
		fail("batch after end-blocker", fmt.Errorf("batch=%v err=%v", batch, err))
		return
	}
	want := new(big.Int)
	var inBatch []uint64
	for _, tx := range batch.Transactions {
		pd := x.m.pending[tx.Id]
		if pd == nil {
			x.violate("execute/unknown-transfer-in-batch", fmt.Sprintf("batch contains transfer %d unknown to the model", tx.Id), opRec{Kind: "batch"}, t, nil)
			return
		}
		rt := new(big.Int)
		if !tx.BridgeTaxAmount.IsNil() {
			rt = tx.BridgeTaxAmount.BigInt()
		}
		rec.Eval(1)
		if rt.Cmp(pd.tax) != 0 || tx.Erc20Token.Amount.BigInt().Cmp(pd.amt) != 0 {
			x.violate("execute/batched-transfer-record", fmt.Sprintf("transfer %d in batch: amount %s tax %s, paid at send: amount %s tax %s", tx.Id, tx.Erc20Token.Amount, rt, pd.amt, pd.tax), opRec{Kind: "batch"}, t, nil)
		}
		want.Add(want, pd.amt)
		want.Add(want, pd.tax)
		inBatch = append(inBatch, tx.Id)
	}
	if len(inBatch) != len(x.m.pending) {
		fail("batch content", fmt.Errorf("%d of %d pending transfers batched", len(inBatch), len(x.m.pending)))
		return
	}
	rec.Count("flow_batches_built_by_endblocker", 1)

	// --- execution: every validator submits the executed-batch claim (signed tx); the attestation
	// is observed by the end-blocker once > 2/3 of the power voted
	before := x.observe(0, t)
	nonce, err := k.GetLastObservedSkywayNonce(ch.Ctx(), chainRef)
	if err != nil {
		fail("nonce", err)
		return
	}
	compassID := k.GetLatestCompassID(ch.Ctx(), chainRef)
	burnedAfter := -1
	for i, v := range e.vals {
		claim := &skywaytypes.MsgBatchSendToRemoteClaim{EventNonce: nonce + 1, SkywayNonce: nonce + 1, EthBlockHeight: 1000, BatchNonce: batch.BatchNonce,
			TokenContract: t.erc20, ChainReferenceId: chainRef, Orchestrator: v.Acct.Bech, Metadata: world.Meta(v.Acct), CompassId: compassID}
		rec.Op(map[string]any{"kind": "claim", "validator": i, "batch_nonce": batch.BatchNonce, "height": ch.Height + 1})
		tr := ch.Deliver(v.Acct, claim)
		if !tr.OK() {
			if burnedAfter >= 0 {
				break // claims after observation may be refused
			}
			fail("claim", fmt.Errorf("validator %d: %s", i, tr.Log))
			return
		}
		mid := x.observe(0, t)
		if burnedAfter < 0 && mid.Supply.Cmp(before.Supply) != 0 {
			burnedAfter = i + 1
		}
	}
	after := x.observe(0, t)
	burned := new(big.Int).Sub(before.Supply, after.Supply)
	released := new(big.Int).Sub(before.Module, after.Module)
	rec.Eval(1)
	wit := map[string]any{"before": before, "after": after, "transfer_ids": inBatch, "burned": burned, "expected_burn": want, "claims_until_burn": burnedAfter}
	if burnedAfter < 0 {
		fail("execution", fmt.Errorf("no burn after claims of all validators"))
		return
	}
	rec.Count("flow_claims_observed", 1)
	rec.Count("batches_executed", 1)
	rec.Count("transfers_executed", int64(len(inBatch)))
	if burned.Cmp(want) != 0 || released.Cmp(want) != 0 {
		x.violate("execute/burn", fmt.Sprintf("batch execution burned %s (module balance -%s), expected sum(amount+tax) = %s", burned, released, want), opRec{Kind: "execute", H: ch.Height, Tok: t.idx}, t, wit)
	}
	if after.Module.Sign() != 0 {
		x.violate("execute/module-remainder", fmt.Sprintf("all transfers executed or cancelled but the module still holds %s", after.Module), opRec{Kind: "execute", H: ch.Height, Tok: t.idx}, t, wit)
	}
	for _, id := range inBatch {
		if x.m.pending[id].tax.Sign() > 0 {
			rec.Count("transfers_executed_with_tax", 1)
		}
	}
	rec.Sample(map[string]any{"mode": "flow", "rate": rateStr, "rate2": rate2, "limit": limit.String(), "burned": burned.String(), "claims_until_burn": burnedAfter, "height": ch.Height})
}
