// Package c15: bridge tax and transfer limits are applied exactly as configured.
//
// Deciding step: the REAL application (app.App via chain.New) executes MsgSendToRemote /
// MsgCancelSendToRemote / governance contents (SetBridgeTax, SetBridgeTransferLimit,
// SetERC20ToDenom through the real gov message server) and batch execution; after every operation
// the monitor compares sender / module balances, supply, the stored outgoing transfer (amount and
// recorded tax) and the BridgeTransferUsage record with an independent big.Int reference model
// written from the property statement.
//
// Case kinds:
//
//	hist-*   random histories in direct mode (heights walk through window edges start+L-1, start+L,
//	         start+L+1 of all four periods; amounts around the remaining allowance, the limit, the
//	         balance, tax rounding boundaries, up to 2^256-1)
//	edges    bounded enumeration: period x offset from window start x amount relative to the
//	         remaining allowance x sender kind
//	taxgrid  bounded enumeration: rate notation x amount boundary x exemption
//	flow     ABCI mode: real governance proposals (submit/vote/tally), signed txs through ante,
//	         batch built by the end-blocker, executed-batch claims by the validators -> burn
//
// In all kinds: tax / limit configurations that are executed in a state branch that is never
// committed (discard.go; in flow: a proposal voted down and a proposal whose last message fails)
// followed by sends that the committed configuration must decide.
package c15

import (
	"fmt"
	"math/big"
	"math/rand"
	"strings"

	abci "github.com/cometbft/cometbft/abci/types"
	sdk "github.com/cosmos/cosmos-sdk/types"

	skywaytypes "github.com/palomachain/paloma/v2/x/skyway/types"

	"verif/harness/chain"
	"verif/harness/fw"
	"verif/harness/world"
)

type params struct {
	Mode    string `json:"mode"`
	Ops     int    `json:"ops,omitempty"`
	Users   int    `json:"users,omitempty"`
	Toks    int    `json:"toks,omitempty"`
	Variant int    `json:"variant,omitempty"`
}

type opRec struct {
	N      int    `json:"n"`
	Kind   string `json:"kind"`
	H      int64  `json:"height"`
	User   int    `json:"user"`
	Tok    int    `json:"token"`
	Amount string `json:"amount,omitempty"`
	ID     uint64 `json:"id,omitempty"`
	Rate   string `json:"rate,omitempty"`
	Limit  string `json:"limit,omitempty"`
	Period string `json:"period,omitempty"`
	Exempt string `json:"exempt,omitempty"`
	How    string `json:"how,omitempty"`
}

// runner drives one history against the real app and the model.
type runner struct {
	*env
	rec    *fw.Recorder
	r      *rand.Rand
	h      int64
	n      int
	recent []opRec
	stop   bool
	abci   bool
	// next execute() lets the batch time out instead of executing it
	timeoutNext bool
	drain       bool   // the amount just generated (nearly) empties the sender
	lastID      uint64 // id of the transfer accepted by the last send (0: rejected)
}

// syncHeight: in ABCI mode an operation executes in the next block. Blocks whose end-blocker
// builds batches (h%50==0) are left empty so that a transfer can be inspected in the pool.
func (x *runner) syncHeight() {
	if !x.abci {
		return
	}
	if (x.c.Height+1)%50 == 0 {
		x.c.Skip(1)
	}
	x.h = x.c.Height + 1
}

// exec runs one message: direct mode (real MsgServiceRouter handler on a cache context at height
// x.h) or ABCI mode (signed tx through ante + baseapp in the next block).
func (x *runner) exec(signer *chain.Account, msg sdk.Msg) ([]abci.Event, error) {
	if x.abci {
		r := x.c.Deliver(signer, msg)
		if !r.OK() {
			return r.Events, fmt.Errorf("code %d (%s): %s", r.Code, r.Codespace, r.Log)
		}
		return r.Events, nil
	}
	res, err := x.c.Direct(msg, x.h, x.timeAt(x.h))
	if res != nil {
		return res.Events, err
	}
	return nil, err
}

func (x *runner) logOp(o opRec) {
	x.rec.Op(o)
	x.recent = append(x.recent, o)
	if len(x.recent) > 24 {
		x.recent = x.recent[len(x.recent)-24:]
	}
}

func (x *runner) tokCfg(t *token) map[string]any {
	m := map[string]any{"denom": t.denom}
	if t.tax.set {
		m["tax_rate"] = t.tax.rateStr
		m["tax_rate_num"] = t.tax.num.String()
		m["tax_rate_den"] = t.tax.den.String()
		m["tax_exempt_users"] = setStr(t.tax.exempt)
	}
	if t.lim.set {
		m["limit"] = t.lim.limit.String()
		m["period"] = periodName[t.lim.period]
		m["period_blocks"] = periodLen(t.lim.period)
		m["limit_exempt_users"] = setStr(t.lim.exempt)
	}
	if t.useSet {
		m["ref_window_total"] = t.useTotal.String()
		m["ref_window_start"] = t.useStart
	}
	return m
}

func (x *runner) violate(sig, msg string, o opRec, t *token, extra map[string]any) {
	w := map[string]any{"op": o, "token": x.tokCfg(t), "recent_ops": append([]opRec(nil), x.recent...)}
	for k, v := range extra {
		w[k] = v
	}
	x.rec.Violation(sig, msg, w)
	if x.rec.Violations() >= 6 {
		x.stop = true
	}
}

// ---------------------------------------------------------------------------------------------
// operations

func (x *runner) setMapping(t *token) error {
	return x.govDirect(mapContent(t), x.h)
}

func (x *runner) setTax(t *token, num, den *big.Int, rateStr string, exempt map[int]bool) {
	o := opRec{N: x.n, Kind: "set-tax", H: x.h, Tok: t.idx, Rate: rateStr, Exempt: setStr(exempt)}
	x.logOp(o)
	if err := x.govDirect(x.taxContent(t, rateStr, exempt), x.h); err != nil {
		// a non-negative rational rate in decimal or fraction notation must be configurable
		x.rec.Count("set_tax_rejected", 1)
		x.rec.Inconclusive(fmt.Sprintf("SetBridgeTaxProposal with rate %q rejected: %v", rateStr, err))
		x.stop = true
		return
	}
	x.rec.Count("set_tax", 1)
	t.tax = taxCfg{set: true, num: num, den: den, rateStr: rateStr, exempt: exempt}
	t.decoyTax = nil
}

func (x *runner) setLimit(t *token, limit *big.Int, period int32, exempt map[int]bool) {
	o := opRec{N: x.n, Kind: "set-limit", H: x.h, Tok: t.idx, Limit: limit.String(), Period: periodName[period], Exempt: setStr(exempt)}
	x.logOp(o)
	if err := x.govDirect(x.limContent(t, limit, period, exempt), x.h); err != nil {
		x.rec.Count("set_limit_rejected", 1)
		x.rec.Inconclusive(fmt.Sprintf("SetBridgeTransferLimitProposal rejected: %v", err))
		x.stop = true
		return
	}
	x.rec.Count("set_limit", 1)
	t.lim = limCfg{set: true, limit: limit, period: period, exempt: exempt}
	t.decoyLim = nil
	// assumption (see Assumptions): the running window carries over as (start, total); the
	// statement-level log restarts from that carried total
	t.log = nil
	if t.useSet {
		t.log = []accepted{{t.useStart, new(big.Int).Set(t.useTotal)}}
	}
}

// probeKeeper: calls the real exported keeper function UpdateBridgeTransferUsageWithLimit on a
// throw-away fork at height h and checks (a) accept/reject against the reference window, (b) that
// a rejection leaves the usage record of the fork untouched (checked before persisting), (c) that
// an acceptance stores exactly the reference usage.
func (x *runner) probeKeeper(o opRec, u int, t *token, a *big.Int, before obs) {
	fctx := x.c.Fork(x.h, x.timeAt(x.h))
	coin := sdk.Coin{Denom: t.denom, Amount: mustInt(a)}
	var err error
	func() {
		defer func() {
			if e := recover(); e != nil {
				err = fmt.Errorf("PANIC: %v", e)
			}
		}()
		err = x.c.App.SkywayKeeper.UpdateBridgeTransferUsageWithLimit(fctx, x.users[u].Addr, coin)
	}()
	set, tot, st, rerr := x.usageIn(fctx, t.denom)
	if rerr != nil {
		x.rec.Inconclusive("usage read in fork: " + rerr.Error())
		return
	}
	after := obs{UseSet: set, UseTot: tot, UseSt: st}
	x.rec.Eval(1)
	x.rec.Count("keeper_probes", 1)
	limited := t.limited(u)
	if !limited {
		if err != nil {
			x.violate("limit/keeper-restricts-unrestricted-sender", fmt.Sprintf("UpdateBridgeTransferUsageWithLimit rejected a sender that is exempt / a token without limit: %v", err), o, t, nil)
		} else if !sameUsage(before, after) {
			x.violate("limit/keeper-unrestricted-send-consumed-allowance", "usage record changed by an exempt sender / unlimited token", o, t, map[string]any{"before": before, "after": after})
		}
		return
	}
	nt, ns := t.nextUsage(a, x.h)
	fits := nt.Cmp(t.lim.limit) <= 0
	switch {
	case fits && err != nil:
		x.rec.Count("keeper_probe_mismatch", 1)
		x.violate("limit/keeper-rejected-within-allowance", fmt.Sprintf("amount fits the window (window total would be %s <= limit %s) but UpdateBridgeTransferUsageWithLimit returned: %v", nt, t.lim.limit, err), o, t, map[string]any{"usage_before": before})
	case !fits && err == nil:
		x.violate("limit/keeper-accepted-over-limit", fmt.Sprintf("window total would be %s > limit %s but UpdateBridgeTransferUsageWithLimit accepted", nt, t.lim.limit), o, t, map[string]any{"usage_before": before, "usage_after": after})
	case !fits:
		x.rec.Count("keeper_probe_rejects", 1)
		if !sameUsage(before, after) {
			x.violate("limit/keeper-persisted-usage-on-reject", "UpdateBridgeTransferUsageWithLimit returned an error but the usage record changed (allowance consumed by a rejected transfer)", o, t, map[string]any{"usage_before": before, "usage_after": after})
		}
	default:
		x.rec.Count("keeper_probe_accepts", 1)
		if !after.UseSet || after.UseTot.Cmp(nt) != 0 || after.UseSt != ns {
			x.violate("limit/keeper-usage-record", fmt.Sprintf("usage after accept should be total=%s start=%d", nt, ns), o, t, map[string]any{"usage_before": before, "usage_after": after})
		}
	}
}

func classOfErr(err error) string {
	s := err.Error()
	switch {
	case strings.Contains(s, "limit for bridge transfer reached"):
		return "limit"
	case strings.Contains(s, "PANIC") && strings.Contains(s, "overflow"):
		return "panic-overflow"
	case strings.Contains(s, "PANIC"):
		return "panic"
	case strings.Contains(s, "insufficient funds") || strings.Contains(s, "is smaller than"):
		return "funds"
	case strings.Contains(s, "invalid coins") || strings.Contains(s, "amount"):
		return "invalid"
	}
	return "other"
}

// send executes one MsgSendToRemote at the current height and checks everything the statement
// says about it.
func (x *runner) send(u int, t *token, a *big.Int) {
	x.syncHeight()
	o := opRec{N: x.n, Kind: "send", H: x.h, User: u, Tok: t.idx, Amount: a.String()}
	x.logOp(o)
	before := x.observe(u, t)
	// the model and the chain must agree before the operation (otherwise an earlier divergence
	// would be reported again and again)
	if before.Sender.Cmp(x.m.bal[u][t.idx]) != 0 || before.Module.Cmp(x.m.mod[t.idx]) != 0 {
		x.rec.Inconclusive(fmt.Sprintf("model/chain balances diverged before op %d", x.n))
		x.stop = true
		return
	}
	v := x.m.predictSend(u, t.idx, a, x.h)
	// coverage only: would this send come out differently under a configuration that was executed
	// but never committed?
	leakTax, leakLim := x.decoyDiffers(u, t, a, v)
	if a.Sign() > 0 {
		x.probeKeeper(o, u, t, a, before)
	}
	msg := &skywaytypes.MsgSendToRemote{EthDest: ethDest, Amount: sdk.Coin{Denom: t.denom, Amount: mustInt(a)},
		ChainReferenceId: chainRef, Metadata: world.Meta(x.users[u])}
	evs, err := x.exec(x.users[u], msg)
	after := x.observe(u, t)
	x.rec.Eval(1)
	x.rec.Count("sends", 1)
	exemptTax := t.taxExempt(u)
	key := fmt.Sprintf("send|%s|%s|%v|%v|%s|%d|%s|%v", t.tax.rateStr, a, exemptTax, v.Limited, periodName[t.lim.period], x.h-t.useStart, v.Reason, err == nil)
	if (t.tax.set && t.tax.num.Sign() > 0) || (t.lim.set && t.lim.period != 0) {
		x.rec.Distinct(key)
	}
	wit := map[string]any{"expected": v, "before": before, "after": after}
	if err != nil {
		wit["error"] = firstLine(err.Error())
	}
	if t.decoyTax != nil || t.decoyLim != nil {
		wit["uncommitted_config_executed_earlier"] = x.decoyCfg(t)
	}
	if leakTax {
		x.rec.Count("sends_after_discarded_tax_config", 1)
	}
	if leakLim {
		x.rec.Count("sends_after_discarded_limit_config", 1)
	}

	if err != nil {
		// ---------------- rejected by the real code
		cls := classOfErr(err)
		x.rec.Count("sends_rejected", 1)
		x.rec.Count("sends_rejected_"+cls, 1)
		// a rejected transfer consumes no allowance and moves no money
		if !sameUsage(before, after) {
			x.violate("limit/rejected-send-changed-usage", "a rejected MsgSendToRemote changed the BridgeTransferUsage record", o, t, wit)
		}
		if before.Sender.Cmp(after.Sender) != 0 || before.Module.Cmp(after.Module) != 0 || before.Supply.Cmp(after.Supply) != 0 {
			x.violate("send/rejected-send-moved-funds", "a rejected MsgSendToRemote changed balances or supply", o, t, wit)
		}
		if v.Accept {
			switch {
			case cls == "limit" && !v.Limited:
				x.violate("limit/unrestricted-sender-rejected", "an exempt sender / a token without limit was rejected by the transfer limit", o, t, wit)
			case cls == "limit":
				x.violate("limit/rejected-within-allowance", fmt.Sprintf("the transfer fits the current window (total would be %s <= limit %s) but was rejected by the limit", v.NewTotal, t.lim.limit), o, t, wit)
			case cls == "panic-overflow" && v.InterOverflow:
				// amount*numerator does not fit 256 bits: the handler panics, the tx fails, nothing
				// is charged. Not a breach of the statement (no transfer happened); counted.
				x.rec.Count("sends_rejected_intermediate_overflow", 1)
			default:
				x.rec.Inconclusive(fmt.Sprintf("op %d: valid send rejected for a reason the harness does not understand: %s", x.n, firstLine(err.Error())))
				x.stop = true
			}
		} else {
			x.rec.Count("rejects_expected_"+v.Reason, 1)
			if v.Reason == "limit" && cls != "limit" {
				// rejected, but for another reason than the model's first one: fine for the property
				x.rec.Count("rejects_other_reason", 1)
			}
		}
		return
	}

	// ---------------- accepted by the real code
	x.rec.Count("sends_accepted", 1)
	if exemptTax {
		x.rec.Count("sends_accepted_tax_exempt_or_untaxed", 1)
	} else {
		x.rec.Count("sends_accepted_taxed", 1)
		if v.Tax.Sign() > 0 && new(big.Int).Mod(new(big.Int).Mul(a, t.tax.num), t.tax.den).Sign() != 0 {
			x.rec.Count("sends_accepted_tax_rounded", 1)
		}
	}
	if a.BitLen() > 128 {
		x.rec.Count("sends_accepted_over_2^128", 1)
	}
	id, okID := txIDFromEvents(evs)
	cost := new(big.Int).Sub(before.Sender, after.Sender)
	lock := new(big.Int).Sub(after.Module, before.Module)
	wit["cost"] = cost
	wantTax := t.refTax(u, a)
	wantTotal := new(big.Int).Add(a, wantTax)
	if cost.Cmp(wantTotal) != 0 {
		sig := "send/cost-nonexempt"
		if exemptTax {
			sig = "send/cost-exempt"
		}
		x.violate(sig, fmt.Sprintf("send of %s cost the sender %s, expected a+floor(a*r) = %s (tax %s)", a, cost, wantTotal, wantTax), o, t, wit)
	}
	if lock.Cmp(cost) != 0 {
		x.violate("send/module-lock", fmt.Sprintf("sender paid %s but the skyway module received %s", cost, lock), o, t, wit)
	}
	if before.Supply.Cmp(after.Supply) != 0 {
		x.violate("send/supply-changed", "supply changed by a send (tax must stay locked until execution)", o, t, wit)
	}
	// the tax is recorded with the transfer
	if !okID {
		x.rec.Inconclusive("accepted send without EventOutgoingTxId")
		x.stop = true
		return
	}
	ramt, rtax, rsender, found := x.pendingRealFast(t, a, id)
	if !found {
		x.violate("send/transfer-not-recorded", fmt.Sprintf("accepted send %d not found in the outgoing pool", id), o, t, wit)
	} else {
		x.rec.Eval(1)
		if rtax.Cmp(wantTax) != 0 {
			x.violate("send/recorded-tax", fmt.Sprintf("recorded BridgeTaxAmount %s, expected %s", rtax, wantTax), o, t, wit)
		}
		if ramt.Cmp(a) != 0 || rsender != x.users[u].Bech {
			x.violate("send/recorded-amount", fmt.Sprintf("recorded amount %s sender %s", ramt, rsender), o, t, wit)
		}
	}
	// limits
	if v.Limited {
		x.rec.Count("sends_accepted_limited", 1)
		nt, ns := t.nextUsage(a, x.h)
		if ns == x.h && t.useSet {
			x.rec.Count("window_rollovers", 1)
			if x.h == t.useStart+periodLen(t.lim.period) {
				x.rec.Count("window_rollovers_at_exact_edge", 1)
			}
		}
		if t.useSet && x.h == t.useStart+periodLen(t.lim.period)-1 {
			x.rec.Count("accepts_in_last_block_of_window", 1)
		}
		// statement level: log + recomputed sum of this window
		sum := new(big.Int).Add(t.windowSum(ns), a)
		x.rec.Eval(1)
		if sum.Cmp(t.lim.limit) > 0 {
			x.violate("limit/window-total-exceeded", fmt.Sprintf("accepted transfers of non-exempt senders in the window starting at %d total %s > limit %s", ns, sum, t.lim.limit), o, t, wit)
		}
		if sum.Cmp(t.lim.limit) == 0 {
			x.rec.Count("window_filled_exactly", 1)
		}
		if !after.UseSet || after.UseTot.Cmp(nt) != 0 || after.UseSt != ns {
			x.violate("limit/usage-record-after-accept", fmt.Sprintf("usage record should be total=%s start=%d", nt, ns), o, t, wit)
		}
	} else {
		x.rec.Count("sends_accepted_unrestricted", 1)
		if !sameUsage(before, after) {
			x.violate("limit/unrestricted-send-consumed-allowance", "usage record changed by an exempt sender / unlimited token", o, t, wit)
		}
	}
	if !v.Accept {
		// model said reject, chain accepted; the specific checks above name what is wrong. If none
		// fired, the model itself is off.
		if x.rec.Violations() == 0 {
			x.rec.Inconclusive(fmt.Sprintf("op %d: model expected reject (%s) but chain accepted and no check fired", x.n, v.Reason))
		}
		x.stop = true
		return
	}
	if x.n < 3 {
		x.rec.Sample(map[string]any{"op": o, "token": x.tokCfg(t), "cost": cost.String(), "tax": wantTax.String(), "id": id})
	}
	// follow the real outcome
	x.m.applySend(u, t.idx, a, x.h, verdict{Tax: new(big.Int).Sub(cost, a), Total: cost}, id)
	x.lastID = id
}

func firstLine(s string) string {
	if i := strings.IndexByte(s, '\n'); i >= 0 {
		s = s[:i]
	}
	if len(s) > 300 {
		s = s[:300]
	}
	return s
}

func (x *runner) pendingRealFast(t *token, a *big.Int, id uint64) (amt, tax *big.Int, sender string, found bool) {
	tok, err := skywaytypes.NewInternalERC20Token(mustInt(a), t.erc20, chainRef)
	if err == nil {
		tx, err := x.c.App.SkywayKeeper.GetUnbatchedTxByAmountAndId(x.c.Ctx(), *tok, id)
		if err == nil && tx != nil {
			tb := new(big.Int)
			if !tx.BridgeTaxAmount.IsNil() {
				tb = tx.BridgeTaxAmount.BigInt()
			}
			return tx.Erc20Token.Amount.BigInt(), tb, tx.Sender.String(), true
		}
	}
	return x.pendingReal(id)
}

// cancel executes MsgCancelSendToRemote by user u for transfer id.
func (x *runner) cancel(u int, id uint64) {
	p := x.m.pending[id]
	o := opRec{N: x.n, Kind: "cancel", H: x.h, User: u, ID: id}
	var t *token
	if p != nil {
		t = x.m.toks[p.tok]
		o.Tok = p.tok
		o.Amount = p.amt.String()
	} else {
		t = x.m.toks[0]
	}
	x.syncHeight()
	o.H = x.h
	x.logOp(o)
	before := x.observe(u, t)
	msg := &skywaytypes.MsgCancelSendToRemote{TransactionId: id, Metadata: world.Meta(x.users[u])}
	_, err := x.exec(x.users[u], msg)
	after := x.observe(u, t)
	x.rec.Eval(1)
	wit := map[string]any{"before": before, "after": after}
	if err != nil {
		wit["error"] = firstLine(err.Error())
	}
	own := p != nil && p.user == u
	if !own {
		x.rec.Count("cancels_foreign_or_unknown", 1)
		if err == nil || before.Sender.Cmp(after.Sender) != 0 || before.Module.Cmp(after.Module) != 0 {
			x.violate("cancel/refund-to-non-owner", "cancel by a non-owner / of an unknown id succeeded or moved funds", o, t, wit)
			x.stop = true
		}
		return
	}
	if err != nil {
		x.rec.Inconclusive(fmt.Sprintf("op %d: cancel of own pending transfer %d rejected: %s", x.n, id, firstLine(err.Error())))
		x.stop = true
		return
	}
	x.rec.Count("cancels", 1)
	if p.tax.Sign() > 0 {
		x.rec.Count("cancels_with_tax", 1)
		if cur := t.refTax(u, p.amt); cur.Cmp(p.tax) != 0 {
			x.rec.Count("cancels_after_rate_or_exemption_change", 1)
		}
	}
	want := new(big.Int).Add(p.amt, p.tax)
	got := new(big.Int).Sub(after.Sender, before.Sender)
	out := new(big.Int).Sub(before.Module, after.Module)
	wit["refund"] = got
	wit["paid_at_send"] = want
	if got.Cmp(want) != 0 {
		x.violate("cancel/refund", fmt.Sprintf("cancel refunded %s, the sender had paid amount %s + tax %s = %s", got, p.amt, p.tax, want), o, t, wit)
	}
	if out.Cmp(got) != 0 || before.Supply.Cmp(after.Supply) != 0 {
		x.violate("cancel/module-release", fmt.Sprintf("module released %s, sender received %s, supply %s -> %s", out, got, before.Supply, after.Supply), o, t, wit)
	}
	if _, _, _, found := x.pendingRealFast(t, p.amt, id); found {
		x.violate("cancel/transfer-still-pending", "cancelled transfer is still in the outgoing pool", o, t, wit)
	}
	// follow the real outcome
	m := x.m
	m.bal[p.user][p.tok] = new(big.Int).Add(m.bal[p.user][p.tok], got)
	m.mod[p.tok] = new(big.Int).Sub(m.mod[p.tok], out)
	delete(m.pending, id)
}

// execute: builds a batch for token t (exported keeper function the end-blocker calls at
// h%50==0) and executes it (exported keeper function the attestation handler calls for an
// observed MsgBatchSendToRemoteClaim); burn must equal sum(amount + recorded tax) of the batch.
func (x *runner) execute(t *token) {
	o := opRec{N: x.n, Kind: "execute", H: x.h, Tok: t.idx}
	x.logOp(o)
	k := x.c.App.SkywayKeeper
	before := x.observe(0, t)
	contract, err := skywaytypes.NewEthAddress(t.erc20)
	if err != nil {
		panic(err)
	}
	ctx, write := x.c.CtxAt(x.h, x.timeAt(x.h)).CacheContext()
	batch, err := k.BuildOutgoingTXBatch(ctx, chainRef, *contract, 100)
	if err != nil {
		x.rec.Inconclusive("BuildOutgoingTXBatch: " + firstLine(err.Error()))
		x.stop = true
		return
	}
	if batch == nil {
		x.rec.Count("execute_empty", 1)
		return
	}
	want := new(big.Int)
	var ids []uint64
	for _, tx := range batch.Transactions {
		p := x.m.pending[tx.Id]
		if p == nil || p.tok != t.idx {
			x.violate("execute/unknown-transfer-in-batch", fmt.Sprintf("batch contains transfer %d unknown to the model", tx.Id), o, t, nil)
			x.stop = true
			return
		}
		ids = append(ids, tx.Id)
		want.Add(want, p.amt)
		want.Add(want, p.tax)
		rt := new(big.Int)
		if !tx.BridgeTaxAmount.IsNil() {
			rt = tx.BridgeTaxAmount.BigInt()
		}
		x.rec.Eval(1)
		if rt.Cmp(p.tax) != 0 || tx.Erc20Token.Amount.BigInt().Cmp(p.amt) != 0 {
			x.violate("execute/batched-transfer-record", fmt.Sprintf("transfer %d in batch: amount %s tax %s, paid at send: amount %s tax %s", tx.Id, tx.Erc20Token.Amount, rt, p.amt, p.tax), o, t, nil)
		}
	}
	if x.timeoutNext {
		// the batch times out instead (exported keeper function the end-blocker calls for a batch
		// past its timeout): the transfers return to the pool and must still carry amount and tax
		x.timeoutNext = false
		if err := k.CancelOutgoingTXBatch(ctx, *contract, batch.BatchNonce); err != nil {
			x.rec.Inconclusive("CancelOutgoingTXBatch: " + firstLine(err.Error()))
			x.stop = true
			return
		}
		write()
		after := x.observe(0, t)
		x.rec.Count("batches_timed_out", 1)
		if before.Supply.Cmp(after.Supply) != 0 || before.Module.Cmp(after.Module) != 0 {
			x.violate("timeout/funds-moved", "a timed-out batch changed supply or module balance", o, t, map[string]any{"before": before, "after": after})
		}
		for _, id := range ids {
			p := x.m.pending[id]
			ramt, rtax, _, found := x.pendingRealFast(t, p.amt, id)
			x.rec.Eval(1)
			if !found || ramt.Cmp(p.amt) != 0 || rtax.Cmp(p.tax) != 0 {
				x.violate("timeout/returned-transfer-record", fmt.Sprintf("transfer %d after batch timeout: found=%v amount %v tax %v, paid at send: amount %s tax %s", id, found, ramt, rtax, p.amt, p.tax), o, t, nil)
			}
		}
		return
	}
	claim := skywaytypes.MsgBatchSendToRemoteClaim{EventNonce: 1, SkywayNonce: 1, EthBlockHeight: 1, BatchNonce: batch.BatchNonce,
		TokenContract: t.erc20, ChainReferenceId: chainRef, Orchestrator: x.vals[0].Acct.Bech, Metadata: world.Meta(x.vals[0].Acct)}
	if err := k.OutgoingTxBatchExecuted(ctx, *contract, claim); err != nil {
		x.rec.Inconclusive("OutgoingTxBatchExecuted: " + firstLine(err.Error()))
		x.stop = true
		return
	}
	write()
	after := x.observe(0, t)
	burned := new(big.Int).Sub(before.Supply, after.Supply)
	released := new(big.Int).Sub(before.Module, after.Module)
	x.rec.Eval(1)
	x.rec.Count("batches_executed", 1)
	x.rec.Count("transfers_executed", int64(len(ids)))
	wit := map[string]any{"before": before, "after": after, "transfer_ids": ids, "burned": burned, "expected_burn": want}
	if burned.Cmp(want) != 0 || released.Cmp(want) != 0 {
		x.violate("execute/burn", fmt.Sprintf("batch execution burned %s (module balance -%s), expected sum(amount+tax) = %s", burned, released, want), o, t, wit)
	}
	if !sameUsage(before, after) {
		x.violate("execute/usage-changed", "batch execution changed the usage record", o, t, wit)
	}
	m := x.m
	for _, id := range ids {
		p := m.pending[id]
		if p.tax.Sign() > 0 {
			x.rec.Count("transfers_executed_with_tax", 1)
		}
		delete(m.pending, id)
	}
	m.mod[t.idx] = new(big.Int).Sub(m.mod[t.idx], released)
	m.supply[t.idx] = new(big.Int).Sub(m.supply[t.idx], burned)
}
