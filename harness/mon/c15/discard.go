package c15

import (
	"fmt"
	"math/big"

	codectypes "github.com/cosmos/cosmos-sdk/codec/types"
	sdk "github.com/cosmos/cosmos-sdk/types"
	govv1 "github.com/cosmos/cosmos-sdk/x/gov/types/v1"
	govv1beta1 "github.com/cosmos/cosmos-sdk/x/gov/types/v1beta1"
	"github.com/cosmos/gogoproto/proto"

	skywaytypes "github.com/palomachain/paloma/v2/x/skyway/types"

	"verif/harness/chain"
)

// ---------------------------------------------------------------------------------------------
// Configuration that is EXECUTED BUT NEVER COMMITTED.
//
// "As configured" means the committed configuration. The real system executes configuration
// handlers in state branches that are thrown away all the time:
//
//   - the gov keeper runs every MsgExecLegacyContent of a proposal on a cache context AT
//     SUBMISSION (to see that it would pass) and drops that branch; the proposal may then sit in
//     its deposit / voting period for days, be voted down, or never reach the deposit;
//   - a passed proposal executes all its messages in one cache context; if a later message fails
//     the whole branch is dropped and the proposal ends FAILED.
//
// After such an execution every transfer must still be charged / limited by the committed
// configuration. The workload executes a configuration that differs from the committed one for
// the next sender (other rate, flipped exemption, other limit / period) in such a branch and then
// sends; the ordinary send oracles (cost, recorded tax, limit verdict, usage record) decide.

const (
	howFork      = "branch-dropped"                  // handlers on a cache context that is never written
	howLaterFail = "later-message-of-proposal-fails" // ... followed by a content whose handler fails (what makes gov drop the branch)
	howSubmitted = "proposal-submitted-not-passed"   // real MsgSubmitProposal (gov executes the contents on a dropped cache context), never voted
)

var hows = []string{howFork, howLaterFail, howSubmitted}

func legacyMsg(ct govv1beta1.Content) (sdk.Msg, error) {
	pm, ok := ct.(proto.Message)
	if !ok {
		return nil, fmt.Errorf("content %T is not a proto message", ct)
	}
	any, err := codectypes.NewAnyWithValue(pm)
	if err != nil {
		return nil, err
	}
	return govv1.NewMsgExecLegacyContent(any, chain.GovAuthority()), nil
}

// runDiscarded executes the contents through the REAL gov message server (same route as
// govDirect) in a state branch that is never committed. Direct mode only.
func (x *runner) runDiscarded(how string, contents ...govv1beta1.Content) (err error) {
	defer func() {
		if e := recover(); e != nil {
			err = fmt.Errorf("PANIC: %v", e)
		}
	}()
	var msgs []sdk.Msg
	for _, ct := range contents {
		m, err := legacyMsg(ct)
		if err != nil {
			return err
		}
		msgs = append(msgs, m)
	}
	switch how {
	case howFork, howLaterFail:
		fctx := x.c.Fork(x.h, x.timeAt(x.h))
		for _, m := range msgs {
			h := x.c.App.MsgServiceRouter().Handler(m)
			if h == nil {
				return fmt.Errorf("no handler for %s", sdk.MsgTypeURL(m))
			}
			if _, err := h(fctx, m); err != nil {
				return err
			}
		}
		if how == howLaterFail {
			bad, err := legacyMsg(&skywaytypes.SetERC20ToDenomProposal{Title: "bad", Description: "bad", ChainReferenceId: chainRef, Erc20: "0xnot-an-address", Denom: "unothing"})
			if err != nil {
				return err
			}
			if _, err := x.c.App.MsgServiceRouter().Handler(bad)(fctx, bad); err == nil {
				return fmt.Errorf("the content that was meant to fail succeeded")
			}
		}
		// the branch is dropped here
		return nil
	case howSubmitted:
		sp, err := govv1.NewMsgSubmitProposal(msgs, sdk.NewCoins(sdk.NewInt64Coin(chain.Denom, 10)), x.users[0].Bech, "", "pending", "C15: submitted, never passed", false)
		if err != nil {
			return err
		}
		_, err = x.c.Direct(sp, x.h, x.timeAt(x.h))
		return err
	}
	return fmt.Errorf("unknown how %q", how)
}

func copySet(m map[int]bool) map[int]bool {
	o := map[int]bool{}
	for k, v := range m {
		if v {
			o[k] = true
		}
	}
	return o
}

func sameRatio(an, ad, bn, bd *big.Int) bool {
	return new(big.Int).Mul(an, bd).Cmp(new(big.Int).Mul(bn, ad)) == 0
}

// discardTax executes SetBridgeTaxProposal(d) for token t in a branch that is never committed.
func (x *runner) discardTax(t *token, d taxCfg, how string) {
	o := opRec{N: x.n, Kind: "discarded-set-tax", H: x.h, Tok: t.idx, Rate: d.rateStr, Exempt: setStr(d.exempt), How: how}
	x.logOp(o)
	if err := x.runDiscarded(how, x.taxContent(t, d.rateStr, d.exempt)); err != nil {
		x.rec.Inconclusive(fmt.Sprintf("uncommitted SetBridgeTaxProposal (%s) with rate %q: %v", how, d.rateStr, firstLine(err.Error())))
		x.stop = true
		return
	}
	x.rec.Count("discarded_tax_configs", 1)
	x.rec.Count("discarded_configs_"+how, 1)
	t.decoyTax = &d
}

// discardLimit executes SetBridgeTransferLimitProposal(d) for token t in a branch that is never committed.
func (x *runner) discardLimit(t *token, d limCfg, how string) {
	o := opRec{N: x.n, Kind: "discarded-set-limit", H: x.h, Tok: t.idx, Limit: d.limit.String(), Period: periodName[d.period], Exempt: setStr(d.exempt), How: how}
	x.logOp(o)
	if err := x.runDiscarded(how, x.limContent(t, d.limit, d.period, d.exempt)); err != nil {
		x.rec.Inconclusive(fmt.Sprintf("uncommitted SetBridgeTransferLimitProposal (%s): %v", how, firstLine(err.Error())))
		x.stop = true
		return
	}
	x.rec.Count("discarded_limit_configs", 1)
	x.rec.Count("discarded_configs_"+how, 1)
	t.decoyLim = &d
}

// decoyDiffers (coverage only): would the statement demand another outcome for this send if the
// uncommitted tax / limit configuration were the configuration? v is the verdict under the
// committed configuration.
func (x *runner) decoyDiffers(u int, t *token, a *big.Int, v verdict) (tax, lim bool) {
	differs := func(w verdict) bool {
		if v.Accept != w.Accept {
			return true
		}
		return v.Accept && v.Total.Cmp(w.Total) != 0
	}
	if t.decoyTax != nil {
		saved := t.tax
		t.tax = *t.decoyTax
		tax = differs(x.m.predictSend(u, t.idx, a, x.h))
		t.tax = saved
	}
	if t.decoyLim != nil {
		saved := t.lim
		t.lim = *t.decoyLim
		lim = differs(x.m.predictSend(u, t.idx, a, x.h))
		t.lim = saved
	}
	return tax, lim
}

func (x *runner) decoyCfg(t *token) map[string]any {
	m := map[string]any{}
	if d := t.decoyTax; d != nil {
		m["tax_rate"] = d.rateStr
		m["tax_exempt_users"] = setStr(d.exempt)
	}
	if d := t.decoyLim; d != nil {
		m["limit"] = d.limit.String()
		m["period"] = periodName[d.period]
		m["limit_exempt_users"] = setStr(d.exempt)
	}
	return m
}

// decoyTaxFor: a tax configuration under which user u would be charged differently than under
// the committed one.
func (x *runner) decoyTaxFor(u int, t *token, nUsers int) taxCfg {
	r := x.r
	whale := t.idx == 0
	other := func(nonZero bool) rate {
		for i := 0; i < 20; i++ {
			rt := genRate(r, whale)
			if nonZero && rt.num.Sign() == 0 {
				continue
			}
			if t.tax.set && sameRatio(rt.num, rt.den, t.tax.num, t.tax.den) {
				continue
			}
			return rt
		}
		if t.tax.set && sameRatio(bi(1), bi(2), t.tax.num, t.tax.den) {
			return rate{bi(1), bi(4), "0.25"}
		}
		return rate{bi(1), bi(2), "1/2"}
	}
	if !t.taxExempt(u) {
		// u pays a tax now
		switch r.Intn(3) {
		case 0: // same rate, u exempt
			ex := copySet(t.tax.exempt)
			ex[u] = true
			return taxCfg{set: true, num: t.tax.num, den: t.tax.den, rateStr: t.tax.rateStr, exempt: ex}
		case 1: // other rate, same exemptions
			rt := other(false)
			return taxCfg{set: true, num: rt.num, den: rt.den, rateStr: rt.str, exempt: copySet(t.tax.exempt)}
		default: // rate zero
			return taxCfg{set: true, num: bi(0), den: bi(1), rateStr: "0", exempt: genSubset(r, nUsers, 30)}
		}
	}
	// u pays no tax now (untaxed token, rate 0 or exempt): a rate > 0 that applies to u
	var rt rate
	switch r.Intn(4) {
	case 0:
		rt = rate{bi(1), bi(2), "1/2"}
	case 1:
		rt = rate{bi(25), bi(100), "0.25"}
	default:
		rt = other(true)
	}
	ex := genSubset(r, nUsers, 30)
	delete(ex, u)
	return taxCfg{set: true, num: rt.num, den: rt.den, rateStr: rt.str, exempt: ex}
}

// remaining allowance of the committed window at height x.h
func (x *runner) remaining(t *token) *big.Int {
	rem := new(big.Int).Set(t.lim.limit)
	if t.useSet && x.h-t.useStart < periodLen(t.lim.period) {
		rem.Sub(rem, t.useTotal)
	}
	if rem.Sign() < 0 {
		rem.SetInt64(0)
	}
	return rem
}

// decoyLimFor: a limit configuration under which user u would be restricted differently.
func (x *runner) decoyLimFor(u int, t *token, nUsers int, focus int32) limCfg {
	r := x.r
	if t.limited(u) {
		rem := x.remaining(t)
		c := r.Intn(4)
		if c == 3 && rem.Sign() == 0 {
			c = 0
		}
		switch c {
		case 0: // u exempt
			ex := copySet(t.lim.exempt)
			ex[u] = true
			return limCfg{set: true, limit: t.lim.limit, period: t.lim.period, exempt: ex}
		case 1: // no period: unrestricted
			return limCfg{set: true, limit: t.lim.limit, period: 0, exempt: copySet(t.lim.exempt)}
		case 2: // much more room
			l := new(big.Int).Add(new(big.Int).Mul(t.lim.limit, bi(2)), bi(1000))
			if l.BitLen() > 255 {
				l = new(big.Int).Set(maxU256)
			}
			return limCfg{set: true, limit: l, period: t.lim.period, exempt: copySet(t.lim.exempt)}
		default: // less room than what is left
			return limCfg{set: true, limit: new(big.Int).Quo(rem, bi(2)), period: t.lim.period, exempt: copySet(t.lim.exempt)}
		}
	}
	// u is unrestricted now: a tight limit that applies to u
	p := int32(1 + r.Intn(4))
	if focus != 0 && r.Intn(2) == 0 {
		p = focus
	}
	ex := genSubset(r, nUsers, 25)
	delete(ex, u)
	return limCfg{set: true, limit: bi(int64(r.Intn(11))), period: p, exempt: ex}
}

// distinguishingAmount: an amount (from the ordinary generator plus the allowance boundaries) for
// which the committed and the uncommitted configuration demand different outcomes.
func (x *runner) distinguishingAmount(u int, t *token) *big.Int {
	r := x.r
	var cands []*big.Int
	if t.decoyLim != nil {
		if t.limited(u) {
			rem := x.remaining(t)
			cands = append(cands, new(big.Int).Add(rem, bi(1)), rem)
		}
		cands = append(cands, bi(int64(11+r.Intn(1000))))
	}
	for i := 0; i < 6; i++ {
		cands = append(cands, x.genAmount(u, t))
	}
	cands = append(cands, bi(int64(1000+r.Intn(1000))))
	pick := cands[len(cands)-1]
	for _, a := range cands {
		if a.Sign() <= 0 || a.BitLen() > 256 {
			continue
		}
		v := x.m.predictSend(u, t.idx, a, x.h)
		if dt, dl := x.decoyDiffers(u, t, a, v); dt || dl {
			pick = a
			break
		}
	}
	// a transfer that takes more than half of the balance is taken back afterwards
	v := x.m.predictSend(u, t.idx, pick, x.h)
	x.drain = v.Accept && new(big.Int).Lsh(v.Total, 1).Cmp(x.m.bal[u][t.idx]) >= 0
	return pick
}

// discarded: one uncommitted configuration for (u, t) followed by a send of u on t.
func (x *runner) discarded(u int, t *token, nUsers int, focus int32) {
	r := x.r
	how := hows[r.Intn(len(hows))]
	if r.Intn(5) < 3 {
		x.discardTax(t, x.decoyTaxFor(u, t, nUsers), how)
	} else {
		x.discardLimit(t, x.decoyLimFor(u, t, nUsers, focus), how)
	}
	if x.stop {
		return
	}
	if r.Intn(3) == 0 {
		x.advance(t)
	}
	a := x.distinguishingAmount(u, t)
	x.n++
	x.lastID = 0
	x.send(u, t, a)
	if x.drain && x.lastID != 0 && !x.stop {
		x.n++
		x.cancel(u, x.lastID)
	}
}
