package c15

import (
	"fmt"
	"math/big"
	"sort"
	"strings"
)

// ---------------------------------------------------------------------------------------------
// Reference model. Written from the property statement and docs/Skyway-Bridge-Tax.md only: exact
// big.Int arithmetic, no cosmossdk.io/math, no constants imported from the code under test.

// block lengths of the four limit periods (statement: daily = 57 600 blocks; week = 7 days,
// month = 30 days, year = 365 days)
const refDaily = int64(57_600)

func periodLen(p int32) int64 {
	switch p {
	case 1:
		return refDaily
	case 2:
		return refDaily * 7
	case 3:
		return refDaily * 30
	case 4:
		return refDaily * 365
	}
	return 0
}

var periodName = map[int32]string{0: "NONE", 1: "DAILY", 2: "WEEKLY", 3: "MONTHLY", 4: "YEARLY"}

var maxU256 = new(big.Int).Sub(new(big.Int).Lsh(big.NewInt(1), 256), big.NewInt(1))

type taxCfg struct {
	set     bool
	num     *big.Int // rate = num/den, den > 0, num >= 0 (as GENERATED, not as parsed by anybody)
	den     *big.Int
	rateStr string
	exempt  map[int]bool
}

type limCfg struct {
	set    bool
	limit  *big.Int
	period int32
	exempt map[int]bool
}

type accepted struct {
	h   int64
	amt *big.Int
}

type token struct {
	idx   int
	denom string
	erc20 string
	tax   taxCfg
	lim   limCfg
	// usage reference: total of the current window and the height it started at
	useSet   bool
	useTotal *big.Int
	useStart int64
	// statement-level log of accepted transfers of non-exempt senders (height, amount)
	log []accepted
	// configurations that were executed in a state branch that was never committed (discard.go),
	// since the last committed configuration of the same kind. They are NOT the configuration: the
	// oracle never looks at them; they only tell which later sends would have come out differently
	// had the uncommitted configuration leaked (coverage counters, witness).
	decoyTax *taxCfg
	decoyLim *limCfg
}

type pend struct {
	id   uint64
	user int
	tok  int
	amt  *big.Int
	tax  *big.Int
}

type model struct {
	toks    []*token
	bal     [][]*big.Int // [user][token]
	mod     []*big.Int   // skyway module balance per token
	supply  []*big.Int
	pending map[uint64]*pend
}

func (m *model) pendingIDs() []uint64 {
	ids := make([]uint64, 0, len(m.pending))
	for id := range m.pending {
		ids = append(ids, id)
	}
	sort.Slice(ids, func(i, j int) bool { return ids[i] < ids[j] })
	return ids
}

// refTax: floor(a*num/den) for a non-exempt sender of a taxed token, else 0.
func (t *token) refTax(user int, a *big.Int) *big.Int {
	if !t.tax.set || t.tax.num.Sign() == 0 || t.tax.exempt[user] {
		return new(big.Int)
	}
	x := new(big.Int).Mul(a, t.tax.num)
	return x.Quo(x, t.tax.den) // both non-negative: Quo == floor
}

func (t *token) taxExempt(user int) bool {
	return !t.tax.set || t.tax.num.Sign() == 0 || t.tax.exempt[user]
}

// limited: is this sender subject to a limit on this token?
func (t *token) limited(user int) bool {
	return t.lim.set && t.lim.period != 0 && !t.lim.exempt[user]
}

// nextUsage: the usage (total, start) that accepting amount a at height h would produce.
// A window starts at the first accepted transfer after the previous window elapsed, and lasts
// periodLen blocks: [start, start+L).
func (t *token) nextUsage(a *big.Int, h int64) (*big.Int, int64) {
	L := periodLen(t.lim.period)
	if !t.useSet || h-t.useStart >= L {
		return new(big.Int).Set(a), h
	}
	return new(big.Int).Add(t.useTotal, a), t.useStart
}

// windowSum: statement-level recomputation, independent of the running total: sum of logged
// accepted non-exempt transfers whose height lies in [start, start+L).
func (t *token) windowSum(start int64) *big.Int {
	L := periodLen(t.lim.period)
	s := new(big.Int)
	for i := len(t.log) - 1; i >= 0; i-- {
		e := t.log[i]
		if e.h < start {
			break
		}
		if e.h < start+L {
			s.Add(s, e.amt)
		}
	}
	return s
}

type verdict struct {
	Accept bool   `json:"accept"`
	Reason string `json:"reason"` // ok | invalid | limit | overflow | funds
	// the real implementation multiplies amount*numerator in 256-bit checked arithmetic before
	// dividing; when that intermediate product does not fit the handler panics (tx rejected).
	InterOverflow bool     `json:"inter_overflow,omitempty"`
	Tax           *big.Int `json:"tax"`
	Total         *big.Int `json:"total"`
	Limited       bool     `json:"limited"`
	NewTotal      *big.Int `json:"new_window_total,omitempty"`
	NewStart      int64    `json:"new_window_start,omitempty"`
}

// predictSend decides what the statement demands for a send of amount a by user u at height h.
func (m *model) predictSend(u, ti int, a *big.Int, h int64) verdict {
	t := m.toks[ti]
	v := verdict{Tax: new(big.Int), Total: new(big.Int)}
	if a.Sign() <= 0 {
		v.Reason = "invalid"
		return v
	}
	v.Limited = t.limited(u)
	if v.Limited {
		v.NewTotal, v.NewStart = t.nextUsage(a, h)
		if v.NewTotal.Cmp(t.lim.limit) > 0 {
			v.Reason = "limit"
			return v
		}
	}
	v.Tax = t.refTax(u, a)
	v.Total = new(big.Int).Add(a, v.Tax)
	if !t.taxExempt(u) {
		if new(big.Int).Mul(a, t.tax.num).BitLen() > 256 {
			v.InterOverflow = true
		}
	}
	if v.Total.BitLen() > 256 {
		v.Reason = "overflow"
		return v
	}
	if m.bal[u][ti].Cmp(v.Total) < 0 {
		v.Reason = "funds"
		return v
	}
	v.Accept = true
	v.Reason = "ok"
	return v
}

// applySend updates the model with an accepted send.
func (m *model) applySend(u, ti int, a *big.Int, h int64, v verdict, id uint64) {
	t := m.toks[ti]
	if t.limited(u) {
		nt, ns := t.nextUsage(a, h)
		t.useSet, t.useTotal, t.useStart = true, nt, ns
		t.log = append(t.log, accepted{h, new(big.Int).Set(a)})
		if len(t.log) > 4096 {
			t.log = append([]accepted(nil), t.log[len(t.log)-2048:]...)
		}
	}
	m.bal[u][ti] = new(big.Int).Sub(m.bal[u][ti], v.Total)
	m.mod[ti] = new(big.Int).Add(m.mod[ti], v.Total)
	m.pending[id] = &pend{id: id, user: u, tok: ti, amt: new(big.Int).Set(a), tax: new(big.Int).Set(v.Tax)}
}

func (m *model) applyCancel(p *pend) {
	tot := new(big.Int).Add(p.amt, p.tax)
	m.bal[p.user][p.tok] = new(big.Int).Add(m.bal[p.user][p.tok], tot)
	m.mod[p.tok] = new(big.Int).Sub(m.mod[p.tok], tot)
	delete(m.pending, p.id)
}

// ---------------------------------------------------------------------------------------------
// rate rendering: the generator owns (num, den); the string handed to the chain is rendered in
// decimal or fraction notation; the oracle never parses the string.

func pow10(k int) *big.Int { return new(big.Int).Exp(big.NewInt(10), big.NewInt(int64(k)), nil) }

// decimalString renders num/10^k as a decimal literal ("12.50", "0.001", ".5" style variations
// are avoided: plain digits '.' digits).
func decimalString(num *big.Int, k int) string {
	s := num.String()
	if k == 0 {
		return s
	}
	for len(s) <= k {
		s = "0" + s
	}
	return s[:len(s)-k] + "." + s[len(s)-k:]
}

func fracString(num, den *big.Int) string { return num.String() + "/" + den.String() }

func setStr(m map[int]bool) string {
	var ks []int
	for k, v := range m {
		if v {
			ks = append(ks, k)
		}
	}
	sort.Ints(ks)
	var sb strings.Builder
	for _, k := range ks {
		fmt.Fprintf(&sb, "%d,", k)
	}
	return sb.String()
}
