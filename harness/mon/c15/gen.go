package c15

import (
	"fmt"
	"math/big"
	"math/rand"

	"verif/harness/fw"
)

// ---------------------------------------------------------------------------------------------
// generators (all randomness from the case seed)

func randBig(r *rand.Rand, bits int) *big.Int {
	if bits <= 0 {
		return new(big.Int)
	}
	b := make([]byte, (bits+7)/8)
	r.Read(b)
	x := new(big.Int).SetBytes(b)
	return x.Rsh(x, uint(len(b)*8-bits))
}

func randBelow(r *rand.Rand, n *big.Int) *big.Int {
	if n.Sign() <= 0 {
		return new(big.Int)
	}
	x := randBig(r, n.BitLen()+8)
	return x.Mod(x, n)
}

func bi(i int64) *big.Int { return big.NewInt(i) }

type rate struct {
	num, den *big.Int
	str      string
}

// genRate: non-negative rationals in decimal or fraction notation.
func genRate(r *rand.Rand, whale bool) rate {
	dec := func(num *big.Int, k int) rate { return rate{num, pow10(k), decimalString(num, k)} }
	frac := func(n, d int64) rate { return rate{bi(n), bi(d), fracString(bi(n), bi(d))} }
	cls := r.Intn(12)
	if cls == 5 && (whale || r.Intn(2) == 0) {
		cls = 4
	}
	switch cls {
	case 0:
		switch r.Intn(3) {
		case 0:
			return rate{bi(0), bi(1), "0"}
		case 1:
			return dec(bi(0), 2)
		default:
			return frac(0, 5)
		}
	case 1:
		return frac(1, 3)
	case 2:
		return dec(bi(2), 1) // 0.2
	case 3:
		if r.Intn(2) == 0 {
			return frac(7, 1)
		}
		return rate{bi(7), bi(1), "7"}
	case 4: // tiny
		k := 6 + r.Intn(13)
		return dec(bi(1+int64(r.Intn(9))), k)
	case 5: // huge
		switch r.Intn(3) {
		case 0:
			return rate{bi(1_000_000), bi(1), "1000000"}
		case 1:
			return rate{p2(128), bi(1), fracString(p2(128), bi(1))}
		default:
			return rate{p2(70), bi(3), fracString(p2(70), bi(3))}
		}
	case 6, 7: // random fraction, possibly unreduced
		q := int64(1 + r.Intn(1000))
		p := int64(r.Intn(int(2*q) + 1))
		return frac(p, q)
	case 8, 9: // random decimal with k fractional digits
		k := 1 + r.Intn(18)
		lim := new(big.Int).Mul(pow10(k), bi(int64(1+r.Intn(3))))
		return dec(randBelow(r, lim), k)
	case 10: // around one
		switch r.Intn(3) {
		case 0:
			return dec(new(big.Int).Sub(pow10(18), bi(1)), 18)
		case 1:
			return rate{bi(1), bi(1), "1"}
		default:
			return dec(new(big.Int).Add(pow10(18), bi(1)), 18)
		}
	default: // fraction with large coprime-ish terms
		d := new(big.Int).Add(randBig(r, 20+r.Intn(60)), bi(1))
		n := randBelow(r, new(big.Int).Mul(d, bi(2)))
		return rate{n, d, fracString(n, d)}
	}
}

func genSubset(r *rand.Rand, n int, pct int) map[int]bool {
	m := map[int]bool{}
	for i := 0; i < n; i++ {
		if r.Intn(100) < pct {
			m[i] = true
		}
	}
	return m
}

func genLimit(r *rand.Rand, whale bool) *big.Int {
	switch x := r.Intn(20); {
	case x < 7:
		return bi(int64(1 + r.Intn(1000)))
	case x < 13:
		return new(big.Int).Add(bi(1_000_000), randBig(r, 40))
	case x < 16:
		return new(big.Int).Add(p2(64), randBig(r, 100))
	case x == 16:
		return bi(0)
	case x == 17 || whale:
		return new(big.Int).Add(p2(250), randBig(r, 254))
	default:
		return bi(int64(1 + r.Intn(10)))
	}
}

func genPeriod(r *rand.Rand, focus int32) int32 {
	if r.Intn(12) == 0 {
		return 0
	}
	if focus != 0 && r.Intn(3) != 0 {
		return focus
	}
	return int32(1 + r.Intn(4))
}

// genAmount: amounts biased to the boundaries the statement talks about.
func (x *runner) genAmount(u int, t *token) *big.Int {
	x.drain = false
	r := x.r
	m := x.m
	var rem *big.Int
	if t.limited(u) {
		rem = new(big.Int).Set(t.lim.limit)
		if t.useSet && x.h-t.useStart < periodLen(t.lim.period) {
			rem.Sub(rem, t.useTotal)
		}
	}
	around := func(c *big.Int) *big.Int {
		d := int64(r.Intn(3) - 1)
		v := new(big.Int).Add(c, bi(d))
		if v.Sign() <= 0 {
			return bi(1)
		}
		return v
	}
	for tries := 0; tries < 4; tries++ {
		c := r.Intn(100)
		switch {
		case c < 14:
			return bi(int64(1 + r.Intn(1000)))
		case c < 34 && rem != nil: // the remaining allowance -1 / exact / +1
			if rem.Sign() > 0 {
				return around(rem)
			}
			return bi(1)
		case c < 42 && rem != nil: // the limit itself -1 / exact / +1
			return around(t.lim.limit)
		case c < 60 && rem != nil: // a part of what is left
			if rem.Sign() > 1 {
				v := new(big.Int).Quo(rem, bi(int64(2+r.Intn(4))))
				if v.Sign() > 0 {
					return v
				}
			}
			return bi(1)
		case c < 70: // tax rounding boundaries: k*den-1, k*den, k*den+1, den-1
			if t.tax.set && t.tax.num.Sign() > 0 && t.tax.den.BitLen() < 120 {
				k := bi(int64(1 + r.Intn(50)))
				return around(new(big.Int).Mul(k, t.tax.den))
			}
		case c < 80:
			return new(big.Int).Add(randBig(r, 1+r.Intn(64)), bi(1))
		case c < 86: // balance edge: total == balance / balance+1
			b := m.bal[u][t.idx]
			if b.Sign() > 0 {
				x.drain = true
				a := new(big.Int).Set(b)
				if !t.taxExempt(u) {
					// a ~ b*den/(den+num)
					a.Mul(b, t.tax.den)
					a.Quo(a, new(big.Int).Add(t.tax.den, t.tax.num))
				}
				return around(a)
			}
		case c < 96: // huge: up to the size of the balance, sometimes beyond (up to 2^256-1)
			x.drain = true
			bits := m.bal[u][t.idx].BitLen()
			if r.Intn(5) == 0 {
				bits = 100 + r.Intn(157)
			}
			if bits > 1 {
				return new(big.Int).Add(randBig(r, 1+r.Intn(bits)), bi(1))
			}
		case c < 98:
			if t.idx == 0 || r.Intn(4) == 0 {
				return new(big.Int).Set(maxU256)
			}
		default:
			return bi(0)
		}
	}
	return bi(int64(1 + r.Intn(1000)))
}

// advance: next height. Heights never decrease. With a limited token that has a running window
// the walk goes through edge-1, edge, edge+1 (edge = start+L) in consecutive operations.
func (x *runner) advance(t *token) {
	r := x.r
	if t.lim.set && t.lim.period != 0 && t.useSet {
		L := periodLen(t.lim.period)
		edge := t.useStart + L
		c := r.Intn(100)
		switch {
		case c < 38:
			for _, cand := range []int64{edge - 2, edge - 1, edge, edge + 1} {
				if cand > x.h {
					x.h = cand
					return
				}
			}
		case c < 45:
			if edge-1 > x.h {
				x.h += 1 + r.Int63n(edge-1-x.h)
				return
			}
		case c < 50:
			x.h += L + r.Int63n(L)
			return
		}
	}
	switch c := r.Intn(100); {
	case c < 55:
		// same block
	case c < 90:
		x.h += 1 + int64(r.Intn(3))
	case c < 97:
		x.h += 1 + r.Int63n(refDaily)
	default:
		x.h += 1 + r.Int63n(refDaily*40)
	}
}

// ---------------------------------------------------------------------------------------------
// random history

func runHist(c fw.Case, p params, rec *fw.Recorder) {
	e, err := bringUp("c15/"+c.Name, p.Users, p.Toks, 0)
	if e.c != nil {
		defer e.c.Close()
	}
	if err != nil {
		rec.Inconclusive("bring-up: " + err.Error())
		return
	}
	x := &runner{env: e, rec: rec, r: c.Rand(), h: e.c.Height + 1}
	r := x.r
	focus := int32(p.Variant % 5) // 0 = mixed periods, 1..4 = mostly that period
	for _, t := range e.m.toks {
		if err := x.setMapping(t); err != nil {
			rec.Inconclusive("mapping: " + err.Error())
			return
		}
	}
	// initial configuration: token 0 (whale) taxed, sometimes limited; others random
	for i, t := range e.m.toks {
		if i == 0 || r.Intn(4) != 0 {
			rt := genRate(r, i == 0)
			x.setTax(t, rt.num, rt.den, rt.str, genSubset(r, p.Users, 30))
		}
		if (i == 0 && r.Intn(3) == 0) || (i != 0 && r.Intn(5) != 0) {
			x.setLimit(t, genLimit(r, i == 0), genPeriod(r, focus), genSubset(r, p.Users, 25))
		}
		if x.stop {
			return
		}
	}
	for x.n = 0; x.n < p.Ops && !x.stop; x.n++ {
		ti := r.Intn(len(e.m.toks))
		if r.Intn(3) == 0 {
			ti = 1 + r.Intn(len(e.m.toks)-1) // the normal tokens get more traffic than the whale
		}
		t := e.m.toks[ti]
		x.advance(t)
		u := r.Intn(p.Users)
		if ti == 0 && r.Intn(2) == 0 {
			u = 0
		}
		switch k := r.Intn(1000); {
		case k >= 738 && k < 760:
			// a configuration that is executed but never committed, then a send (discard.go)
			x.discarded(u, t, p.Users, focus)
		case k < 760:
			x.lastID = 0
			x.send(u, t, x.genAmount(u, t))
			if x.drain && x.lastID != 0 && r.Intn(100) < 85 && !x.stop {
				// a transfer that (nearly) emptied the account is usually taken back, so that the
				// history does not degenerate into insufficient-funds rejections
				x.n++
				x.advance(t)
				x.cancel(u, x.lastID)
			}
		case k < 900:
			ids := x.m.pendingIDs()
			if len(ids) == 0 {
				x.send(u, t, x.genAmount(u, t))
				break
			}
			id := ids[r.Intn(len(ids))]
			if len(ids) > 8 && r.Intn(2) == 0 {
				id = ids[len(ids)-1-r.Intn(8)] // recent ones
			}
			who := x.m.pending[id].user
			switch r.Intn(12) {
			case 0:
				who = (who + 1 + r.Intn(p.Users-1)) % p.Users // somebody else
			case 1:
				id = id + 1_000_000 // unknown id
			}
			x.cancel(who, id)
		case k < 945:
			rt := genRate(r, ti == 0)
			x.setTax(t, rt.num, rt.den, rt.str, genSubset(r, p.Users, 30))
		case k < 975:
			x.setLimit(t, genLimit(r, ti == 0), genPeriod(r, focus), genSubset(r, p.Users, 25))
		default:
			x.timeoutNext = r.Intn(4) == 0
			x.execute(t)
		}
	}
	x.timeoutNext = false
	// drain: execute everything that is still pending, batch by batch
	for _, t := range e.m.toks {
		for i := 0; i < 400 && !x.stop; i++ {
			left := false
			for _, pd := range x.m.pending {
				if pd.tok == t.idx {
					left = true
					break
				}
			}
			if !left {
				break
			}
			x.n++
			x.execute(t)
		}
	}
	// final reconciliation of every balance with the model
	if !x.stop {
		for ti, t := range e.m.toks {
			for u := range e.users {
				o := x.observe(u, t)
				rec.Eval(1)
				if o.Sender.Cmp(e.m.bal[u][ti]) != 0 || o.Module.Cmp(e.m.mod[ti]) != 0 || o.Supply.Cmp(e.m.supply[ti]) != 0 {
					x.violate("final/balances", fmt.Sprintf("final balances differ from the reference: user %d token %s", u, t.denom), opRec{Kind: "final", User: u, Tok: ti}, t,
						map[string]any{"real": o, "ref_sender": e.m.bal[u][ti], "ref_module": e.m.mod[ti], "ref_supply": e.m.supply[ti]})
				}
			}
		}
	}
	rec.Count("histories", 1)
}

// ---------------------------------------------------------------------------------------------
// bounded enumeration: window edges
//
// period (4) x offset of the second transfer from the window start {0, 1, L-2, L-1, L, L+1, 2L-1, 2L}
// x first fill {1, limit/2, limit-1, limit} x second amount relative to what is left in the first
// window {rem-1, rem, rem+1, limit, limit+1} x sender kind {plain, limit-exempt}.

func runEdges(c fw.Case, p params, rec *fw.Recorder) {
	e, err := bringUp("c15/"+c.Name, 3, 2, 0)
	if e.c != nil {
		defer e.c.Close()
	}
	if err != nil {
		rec.Inconclusive("bring-up: " + err.Error())
		return
	}
	x := &runner{env: e, rec: rec, r: c.Rand(), h: e.c.Height + 1}
	t := e.m.toks[1]
	if err := x.setMapping(t); err != nil {
		rec.Inconclusive("mapping: " + err.Error())
		return
	}
	period := int32(p.Variant)
	L := periodLen(period)
	limits := []*big.Int{bi(1000), new(big.Int).Add(p2(80), bi(12345))}
	x.setTax(t, bi(1), bi(8), "0.125", map[int]bool{})
	for li, limit := range limits {
		x.setLimit(t, limit, period, map[int]bool{2: true})
		fills := []*big.Int{bi(1), new(big.Int).Quo(limit, bi(2)), new(big.Int).Sub(limit, bi(1)), limit}
		for oi, off := range []int64{0, 1, L - 2, L - 1, L, L + 1, 2*L - 1, 2 * L} {
			if oi == 4 {
				// second half of the offsets: after a limit configuration that was executed but never
				// committed (three times the limit, another period, the plain sender exempt)
				x.n++
				x.discardLimit(t, limCfg{set: true, limit: new(big.Int).Mul(limit, bi(3)), period: period%4 + 1, exempt: map[int]bool{0: true}}, hows[li%len(hows)])
			}
			for _, fill := range fills {
				for sec := 0; sec < 5; sec++ {
					for _, u := range []int{0, 2} {
						if x.stop {
							return
						}
						// fresh window: jump far beyond anything that was started before
						x.h += 3 * L
						start := x.h
						x.n++
						x.send(0, t, fill) // opens the window (sender 0 is not exempt)
						rem := new(big.Int).Sub(limit, fill)
						var a *big.Int
						switch sec {
						case 0:
							a = new(big.Int).Sub(rem, bi(1))
						case 1:
							a = rem
						case 2:
							a = new(big.Int).Add(rem, bi(1))
						case 3:
							a = limit
						default:
							a = new(big.Int).Add(limit, bi(1))
						}
						if a.Sign() <= 0 {
							a = bi(1)
						}
						x.h = start + off
						x.n++
						x.send(u, t, a)
						// and one more unit in the same block: the window must be exactly full or not
						x.n++
						x.send(0, t, bi(1))
						rec.DistinctByConstruction(1)
						rec.Count("edge_combinations", 1)
					}
				}
			}
		}
	}
	// drain through batches so that the burn is checked on these transfers as well
	for i := 0; i < 100 && !x.stop && len(x.m.pending) > 0; i++ {
		x.n++
		x.execute(t)
	}
}

// ---------------------------------------------------------------------------------------------
// bounded enumeration: tax grid
//
// rate (list below, both notations) x amount {1, den-1, den, den+1, 2den-1, 7den+3, 10^18+1, 2^64+1,
// 2^128+5, 2^200+9} x sender {plain, exempt}: send, check cost/record, cancel, check refund.

func gridRates() []rate {
	f := func(n, d int64) rate { return rate{bi(n), bi(d), fracString(bi(n), bi(d))} }
	d := func(n int64, k int) rate { return rate{bi(n), pow10(k), decimalString(bi(n), k)} }
	return []rate{
		{bi(0), bi(1), "0"}, d(0, 1), f(0, 7),
		f(1, 3), f(2, 6), f(2, 3), d(2, 1), d(20, 2), f(1, 5),
		f(7, 1), {bi(7), bi(1), "7"}, d(70, 1),
		d(1, 18), d(1, 6), d(25, 4), d(3333, 4), d(999999999999999999, 18),
		{bi(1), bi(1), "1"}, d(1000000000000000001, 18), d(15, 1), f(3, 2),
		f(999, 1000), f(1, 1000), f(355, 113), f(1_000_000, 1), f(1, 57600),
	}
}

func runTaxGrid(c fw.Case, p params, rec *fw.Recorder) {
	e, err := bringUp("c15/"+c.Name, 3, 2, 0)
	if e.c != nil {
		defer e.c.Close()
	}
	if err != nil {
		rec.Inconclusive("bring-up: " + err.Error())
		return
	}
	x := &runner{env: e, rec: rec, r: c.Rand(), h: e.c.Height + 1}
	for _, t := range e.m.toks {
		if err := x.setMapping(t); err != nil {
			rec.Inconclusive("mapping: " + err.Error())
			return
		}
	}
	rates := gridRates()
	for ri, rt := range rates {
		if ri%2 != p.Variant%2 {
			continue
		}
		for ti, t := range e.m.toks {
			x.setTax(t, rt.num, rt.den, rt.str, map[int]bool{1: true})
			if ti == (ri/2)%2 && !x.stop {
				// every other (rate, token): the grid runs after a tax configuration that was executed
				// but never committed (another rate of the grid, exemption flipped for both senders)
				d := rates[(ri+5)%len(rates)]
				if sameRatio(d.num, d.den, rt.num, rt.den) {
					d = rate{bi(1), bi(2), "1/2"}
				}
				x.n++
				x.discardTax(t, taxCfg{set: true, num: d.num, den: d.den, rateStr: d.str, exempt: map[int]bool{0: true}}, hows[(ri/2)%len(hows)])
			}
			if x.stop {
				return
			}
			den := rt.den
			amts := []*big.Int{bi(1), new(big.Int).Sub(den, bi(1)), den, new(big.Int).Add(den, bi(1)),
				new(big.Int).Sub(new(big.Int).Mul(den, bi(2)), bi(1)), new(big.Int).Add(new(big.Int).Mul(den, bi(7)), bi(3)),
				new(big.Int).Add(pow10(18), bi(1)), new(big.Int).Add(p2(64), bi(1))}
			if ti == 0 {
				amts = append(amts, new(big.Int).Add(p2(128), bi(5)), new(big.Int).Add(p2(190), bi(9)))
			}
			for _, a := range amts {
				if a.Sign() <= 0 {
					continue
				}
				for _, u := range []int{0, 1} {
					if x.stop {
						return
					}
					x.h++
					x.n++
					nb := len(x.m.pending)
					x.send(u, t, a)
					rec.DistinctByConstruction(1)
					rec.Count("taxgrid_combinations", 1)
					if len(x.m.pending) == nb+1 && (x.n/2)%3 != 0 {
						ids := x.m.pendingIDs()
						x.n++
						x.cancel(u, ids[len(ids)-1])
					}
				}
			}
		}
	}
	for _, t := range e.m.toks {
		for i := 0; i < 100 && !x.stop; i++ {
			left := false
			for _, pd := range x.m.pending {
				if pd.tok == t.idx {
					left = true
				}
			}
			if !left {
				break
			}
			x.n++
			x.execute(t)
		}
	}
}

// ---------------------------------------------------------------------------------------------

func run(c fw.Case, tier string, rec *fw.Recorder) {
	var p params
	c.Decode(&p)
	switch p.Mode {
	case "hist":
		runHist(c, p, rec)
	case "edges":
		runEdges(c, p, rec)
	case "taxgrid":
		runTaxGrid(c, p, rec)
	case "flow":
		runFlow(c, p, rec)
	default:
		rec.Inconclusive("unknown mode " + p.Mode)
	}
}

func cases(tier string, seed int64) []fw.Case {
	var cs []fw.Case
	nh, ops := 40, 3500
	if tier == "thorough" {
		nh, ops = 320, 8000
	}
	cs = append(cs, fw.MkCase("flow", seed*7919+1, params{Mode: "flow"}))
	for v := 1; v <= 4; v++ {
		cs = append(cs, fw.MkCase(fmt.Sprintf("edges-%s", periodName[int32(v)]), 0, params{Mode: "edges", Variant: v}))
	}
	for v := 0; v < 2; v++ {
		cs = append(cs, fw.MkCase(fmt.Sprintf("taxgrid-%d", v), 0, params{Mode: "taxgrid", Variant: v}))
	}
	for i := 0; i < nh; i++ {
		cs = append(cs, fw.MkCase(fmt.Sprintf("hist-%03d", i), seed*1000003+int64(i),
			params{Mode: "hist", Ops: ops, Users: 3 + i%3, Toks: 2 + i%3, Variant: i}))
	}
	return cs
}

func init() {
	fw.Register(&fw.Prop{
		ID:    "C15",
		Level: "exploration",
		Rule: "real app.App; hist-*: seeded random histories in direct mode of MsgSendToRemote / MsgCancelSendToRemote / SetBridgeTax / SetBridgeTransferLimit (real gov message server) / batch build+execute, " +
			"3-5 users, 2-4 tokens (one with supply 2^256-1), heights walking through window edges (start+L-2 .. start+L+1) of all four periods, amounts around remaining allowance / limit / balance / tax rounding boundaries / up to 2^256-1; " +
			"edges-*: enumeration period x offset-from-window-start x first fill x second amount x sender kind; taxgrid-*: enumeration rate notation x amount boundary x exemption with cancel; " +
			"flow: ABCI mode with real governance, signed txs, end-blocker batch and validator claims. " +
			"all kinds: tax / limit configurations that are EXECUTED BUT NEVER COMMITTED (handler in a dropped state branch; proposal whose later message fails; proposal submitted / voted down / failed) chosen so that the next sender would be treated differently, followed by sends judged by the committed configuration. " +
			"distinct_nontrivial = distinct (rate, amount, exemption, limited, period, offset in window, verdict) tuples of sends on tokens with a tax > 0 or an active limit, plus enumerated combinations; " +
			"evaluations = oracle comparisons (per send: cost/lock/record/limit; per cancel: refund; per batch: burn; per keeper probe: accept/reject+record)",
		Assumptions: []string{
			"limit window = [start, start+L) blocks where start is the height of the first accepted non-exempt transfer after the previous window elapsed (DESIGN C15); a sliding-window reading of 'any one limit window' is NOT checked",
			"L: daily 57 600 blocks, weekly x7, monthly x30, yearly x365",
			"when a limit is re-configured the running window (start, total) carries over and is judged with the new period and limit",
			"cancelled transfers still count as accepted transfers of their window",
			"the configuration of a token is what the last PASSED governance content set; a content executed in a state branch that is dropped (gov runs legacy contents on a cache context at submission; a proposal whose later message fails; a proposal voted down) configures nothing",
			"direct mode emulates baseapp message atomicity with a cache context (chain.Direct); the flow case re-checks rejected sends through the real baseapp",
			"a send whose intermediate product amount*numerator exceeds 256 bits is rejected by a recovered panic in the real code; counted (sends_rejected_intermediate_overflow), not judged",
		},
		Exhaustive: func(string) bool { return false },
		Cases:      cases,
		Run:        run,
		MinCounters: []string{"sends_accepted_taxed", "sends_accepted_tax_rounded", "sends_accepted_tax_exempt_or_untaxed", "cancels_with_tax", "batches_executed", "transfers_executed_with_tax", "sends_rejected_limit", "window_rollovers_at_exact_edge", "accepts_in_last_block_of_window", "window_filled_exactly", "keeper_probe_rejects", "sends_accepted_unrestricted", "flow_claims_observed",
			"sends_after_discarded_tax_config", "sends_after_discarded_limit_config", "flow_gov_proposals_not_passed"},
		TimeoutS: 1500,
	})
}
