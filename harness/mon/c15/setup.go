package c15

import (
	"fmt"
	"math/big"
	"strings"
	"time"

	sdkmath "cosmossdk.io/math"
	abci "github.com/cometbft/cometbft/abci/types"
	codectypes "github.com/cosmos/cosmos-sdk/codec/types"
	sdk "github.com/cosmos/cosmos-sdk/types"
	govv1 "github.com/cosmos/cosmos-sdk/x/gov/types/v1"
	govv1beta1 "github.com/cosmos/cosmos-sdk/x/gov/types/v1beta1"
	"github.com/cosmos/gogoproto/proto"

	skywaytypes "github.com/palomachain/paloma/v2/x/skyway/types"

	"verif/harness/chain"
	"verif/harness/world"
)

const (
	chainRef    = "eth-main"
	compassAddr = "0x00000000000000000000000000000000000c0de1"
	ethDest     = "0x00000000000000000000000000000000000d0e57"
)

func mustInt(b *big.Int) sdkmath.Int { return sdkmath.NewIntFromBigInt(b) }

func p2(n uint) *big.Int { return new(big.Int).Lsh(big.NewInt(1), n) }

type env struct {
	c     *chain.Chain
	vals  []chain.ValSpec
	users []*chain.Account
	m     *model
}

func erc20Of(i int) string { return fmt.Sprintf("0x%040x", 0xe2c20000+i) }

// bringUp: real app, validators bootstrapped (external accounts, keep-alive, relayer fees), the
// EVM chain activated, nTok denoms funded to nUsers users. Token i>=1 is "normal" (balances
// 2^100 .. 2^130), token 0 is the "whale" token whose supply is exactly 2^256-1.
func bringUp(prefix string, nUsers, nTok int, voting time.Duration) (*env, error) {
	vals := chain.DefaultValidators(prefix, []int64{40_000_000, 30_000_000, 30_000_000})
	e := &env{vals: vals, m: &model{pending: map[uint64]*pend{}}}
	for i := 0; i < nTok; i++ {
		e.m.toks = append(e.m.toks, &token{idx: i, denom: fmt.Sprintf("utok%c", 'a'+i), erc20: erc20Of(i)})
		e.m.mod = append(e.m.mod, new(big.Int))
		e.m.supply = append(e.m.supply, new(big.Int))
	}
	funded := map[*chain.Account]sdk.Coins{}
	for u := 0; u < nUsers; u++ {
		a := chain.NewAccount(fmt.Sprintf("u%d", u), fmt.Sprintf("%s/user/%d", prefix, u))
		e.users = append(e.users, a)
		row := make([]*big.Int, nTok)
		coins := sdk.NewCoins(sdk.NewInt64Coin(chain.Denom, 1_000_000_000))
		for t := 0; t < nTok; t++ {
			var b *big.Int
			switch {
			case t == 0 && u == 0:
				// whale: everything that is left of 2^256-1 after the others got 2^200 each
				others := new(big.Int).Mul(p2(200), big.NewInt(int64(nUsers-1)))
				b = new(big.Int).Sub(maxU256, others)
			case t == 0:
				b = p2(200)
			default:
				b = new(big.Int).Add(p2(uint(100+10*((u+t)%4))), big.NewInt(int64(1000*u+t)))
			}
			row[t] = b
			e.m.supply[t] = new(big.Int).Add(e.m.supply[t], b)
			coins = coins.Add(sdk.NewCoin(e.m.toks[t].denom, mustInt(b)))
		}
		e.m.bal = append(e.m.bal, row)
		funded[a] = coins
	}
	e.c = chain.New(chain.Config{Validators: vals, Users: funded,
		EVMChains:   []chain.EVMChainSpec{{RefID: chainRef, ChainID: 1}},
		WithCompass: true, VotingPeriod: voting})
	c := e.c
	if br := c.Skip(1); br.Panic != "" || br.Err != nil {
		return e, fmt.Errorf("first block: %s %v", br.Panic, br.Err)
	}
	if err := world.Bootstrap(c, world.Accts(vals), []string{chainRef}); err != nil {
		return e, err
	}
	if err := world.ActivateChain(c, chainRef, compassAddr, []byte("compass-"+chainRef)); err != nil {
		return e, err
	}
	// run blocks until the chain can assign a relayer (valset snapshot + metrix performance
	// records exist); batch building needs that.
	for i := 0; ; i++ {
		_, _, err := c.App.EvmKeeper.PickValidatorForMessage(c.Fork(c.Height+1, c.Time), chainRef, nil)
		if err == nil {
			break
		}
		if i >= 120 {
			return e, fmt.Errorf("no relayer assignable after %d blocks: %v", i, err)
		}
		if br := c.Skip(1); br.Panic != "" || br.Err != nil {
			return e, fmt.Errorf("block: %s %v", br.Panic, br.Err)
		}
	}
	return e, nil
}

func (e *env) timeAt(h int64) time.Time {
	return time.Unix(e.c.Cfg.StartTime.Unix()+h, 0).UTC()
}

// govDirect executes a legacy proposal content through the REAL gov message server
// (MsgExecLegacyContent, authority = gov module) in direct mode: gov keeper legacy router ->
// skyway proposal handler -> keeper setter. Same code a passed proposal runs.
func (e *env) govDirect(content govv1beta1.Content, h int64) error {
	pm, ok := content.(proto.Message)
	if !ok {
		return fmt.Errorf("content %T is not a proto message", content)
	}
	any, err := codectypes.NewAnyWithValue(pm)
	if err != nil {
		return err
	}
	msg := govv1.NewMsgExecLegacyContent(any, chain.GovAuthority())
	_, err = e.c.Direct(msg, h, e.timeAt(h))
	return err
}

func (e *env) bechs(set map[int]bool) []string {
	var out []string
	for i := range e.users {
		if set[i] {
			out = append(out, e.users[i].Bech)
		}
	}
	return out
}

func mapContent(t *token) govv1beta1.Content {
	return &skywaytypes.SetERC20ToDenomProposal{Title: "map " + t.denom, Description: "map", ChainReferenceId: chainRef, Erc20: t.erc20, Denom: t.denom}
}

func (e *env) taxContent(t *token, rate string, exempt map[int]bool) govv1beta1.Content {
	return &skywaytypes.SetBridgeTaxProposal{Title: "tax " + t.denom, Description: "tax", Rate: rate, Token: t.denom, ExemptAddresses: e.bechs(exempt)}
}

func (e *env) limContent(t *token, limit *big.Int, period int32, exempt map[int]bool) govv1beta1.Content {
	return &skywaytypes.SetBridgeTransferLimitProposal{Title: "limit " + t.denom, Description: "limit", Token: t.denom,
		Limit: mustInt(limit), LimitPeriod: skywaytypes.LimitPeriod(period), ExemptAddresses: e.bechs(exempt)}
}

// ---------------------------------------------------------------------------------------------
// observation of the real state (exported keeper getters / bank keeper, read-only)

type obs struct {
	Sender *big.Int `json:"sender_balance"`
	Module *big.Int `json:"module_balance"`
	Supply *big.Int `json:"supply"`
	UseSet bool     `json:"usage_set"`
	UseTot *big.Int `json:"usage_total,omitempty"`
	UseSt  int64    `json:"usage_start,omitempty"`
}

func (e *env) usageIn(ctx sdk.Context, denom string) (bool, *big.Int, int64, error) {
	u, err := e.c.App.SkywayKeeper.BridgeTransferUsage(ctx, denom)
	if err != nil {
		if strings.Contains(err.Error(), "not found") {
			return false, nil, 0, nil
		}
		return false, nil, 0, err
	}
	if u == nil || u.Total.IsNil() {
		return false, nil, 0, nil
	}
	return true, u.Total.BigInt(), u.StartBlockHeight, nil
}

func (e *env) observe(user int, t *token) obs {
	ctx := e.c.Ctx()
	o := obs{
		Sender: e.c.App.BankKeeper.GetBalance(ctx, e.users[user].Addr, t.denom).Amount.BigInt(),
		Module: e.c.App.BankKeeper.GetBalance(ctx, chain.ModuleAddr(skywaytypes.ModuleName), t.denom).Amount.BigInt(),
		Supply: e.c.App.BankKeeper.GetSupply(ctx, t.denom).Amount.BigInt(),
	}
	set, tot, st, err := e.usageIn(ctx, t.denom)
	if err != nil {
		panic(fmt.Sprintf("usage read: %v", err))
	}
	o.UseSet, o.UseTot, o.UseSt = set, tot, st
	return o
}

func sameUsage(a, b obs) bool {
	if a.UseSet != b.UseSet {
		return false
	}
	if !a.UseSet {
		return true
	}
	return a.UseTot.Cmp(b.UseTot) == 0 && a.UseSt == b.UseSt
}

// pendingReal: the stored outgoing transfer (amount and recorded tax) by id.
func (e *env) pendingReal(id uint64) (amt, tax *big.Int, sender string, found bool) {
	tx, err := e.c.App.SkywayKeeper.GetUnbatchedTxById(e.c.Ctx(), id)
	if err != nil || tx == nil {
		return nil, nil, "", false
	}
	tb := new(big.Int)
	if !tx.BridgeTaxAmount.IsNil() {
		tb = tx.BridgeTaxAmount.BigInt()
	}
	return tx.Erc20Token.Amount.BigInt(), tb, tx.Sender.String(), true
}

func txIDFromEvents(evs []abci.Event) (uint64, bool) {
	v, ok := chain.EventAttr(evs, "EventOutgoingTxId", "tx_id")
	if !ok {
		return 0, false
	}
	v = strings.Trim(v, "\"")
	var id uint64
	if _, err := fmt.Sscanf(v, "%d", &id); err != nil {
		return 0, false
	}
	return id, true
}
