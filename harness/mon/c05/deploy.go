package c05

// Part 3 (cases dep-*): the deployment id inside the bytes to sign of bridge batches, on the REAL
// chain, along registration histories of the remote chain.
//
// The property: the bytes validators are asked to sign for a bridge batch depend on the bridge
// deployment id, so collected signatures can never authorise a different deployment. The id that
// counts is the one the chain is REGISTERED with (x/evm chain info SmartContractUniqueID): that is
// what the confirm handler and the remote contract hash against. Parts 1/2 never let the
// registration of a chain and the other places a deployment id is remembered drift apart; here
// they do:
//
//	none                                   chain activated once (calibration / control)
//	stale-activation-same-version          an activation call for a compass that is NOT newer than the
//	                                       active one (other address, other id): x/evm ignores it
//	compass-upgrade                        governance deploys a newer compass, the chain is activated with it
//	compass-upgrade-then-stale-older-version  ... and afterwards the late activation of the OLD version arrives
//	chain-re-registered                    governance removes the chain and adds it again (no deployment on record)
//	chain-re-registered-and-re-activated   ... and a compass is activated on the re-added chain
//
// Workload per case: a bridge world (2 chains x 2 tokens), users send to remote, the end-blocker
// builds batches (h%50), validators with > 2/3 send MsgEstimateBatchGas, the skyway end-blocker
// elects the estimate and RE-ISSUES the bytes to sign (real UpdateBatchGasEstimate path). One batch
// of the target chain gets its estimate before the history step, the other one after it; a second
// round builds and elects new batches in the state the history left behind.
//
// Observation after every block: every batch as it is handed out (query BatchRequestByNonce, and
// OutgoingTxBatches for the assigned relayer when it lists the batch). Whenever a batch is new
// (issued at batch build) or its estimate/bytes changed (re-issued), the handed-out BytesToSign must
// equal the checkpoint computed by the monitor's own reference encoder (checkpoint.go) for the
// deployment id in the evm chain info at that moment, and differ from the checkpoint for every
// other id the case ever used. Bytes that were issued earlier and are not touched are not judged
// (the code does not re-issue on registration changes; that is not what C05 states).

import (
	"bytes"
	"encoding/hex"
	"fmt"
	"math/rand"
	"sort"
	"strings"

	sdkmath "cosmossdk.io/math"
	codectypes "github.com/cosmos/cosmos-sdk/codec/types"
	sdk "github.com/cosmos/cosmos-sdk/types"
	govv1 "github.com/cosmos/cosmos-sdk/x/gov/types/v1"
	gogoproto "github.com/cosmos/gogoproto/proto"

	evmtypes "github.com/palomachain/paloma/v2/x/evm/types"
	skywaytypes "github.com/palomachain/paloma/v2/x/skyway/types"

	"verif/harness/chain"
	"verif/harness/fw"
	"verif/harness/world"
)

type depParams struct {
	Mode    string `json:"mode"`
	History string `json:"history"`
	Rounds  int    `json:"rounds"` // build+elect rounds after the history step
}

var depHistories = []string{
	"none",
	"stale-activation-same-version",
	"compass-upgrade",
	"compass-upgrade-then-stale-older-version",
	"chain-re-registered",
	"chain-re-registered-and-re-activated",
}

func depCases(tier string, seed int64) []fw.Case {
	var cs []fw.Case
	reps := 1
	if tier == "thorough" {
		reps = 3
	}
	n := 0
	for rep := 0; rep < reps; rep++ {
		for _, h := range depHistories {
			p := depParams{Mode: "dep", History: h, Rounds: 1 + rep%2}
			cs = append(cs, fw.MkCase(fmt.Sprintf("dep-%03d-%s", n, h), seed*9000011+int64(n)+1, p))
			n++
		}
	}
	return cs
}

type batchSeen struct {
	bytes string
	gas   uint64
}

type depWorld struct {
	bw      *world.BridgeWorld
	c       *chain.Chain
	rec     *fw.Recorder
	r       *rand.Rand
	name    string
	history string
	phase   string   // "before" / "after" the history step
	known   []string // every deployment id (and id-like string) the case ever used
	seen    map[string]batchSeen
	inSync  bool              // the reference encoder reproduced at least one issued checkpoint of this case
	lastAct map[string]string // chain -> id passed to the most recent activation call (workload bookkeeping, counters only)
	notes   []string
	failed  bool
}

func (d *depWorld) note(format string, a ...any) {
	s := fmt.Sprintf("h%d ", d.c.Height) + fmt.Sprintf(format, a...)
	d.notes = append(d.notes, s)
	fmt.Println(s)
}

func (d *depWorld) know(id string) {
	for _, k := range d.known {
		if k == id {
			return
		}
	}
	d.known = append(d.known, id)
}

func (d *depWorld) block(what string) bool {
	br := d.c.NextBlock()
	if br.Panic != "" || br.Err != nil {
		d.failed = true
		d.rec.Inconclusive(fmt.Sprintf("FinalizeBlock failed during %s at height %d: %v %.200s", what, d.c.Height+1, br.Err, br.Panic))
		return false
	}
	for _, t := range br.Txs {
		if t.OK() {
			d.rec.Count("dep/txs_ok", 1)
		} else {
			d.rec.Count("dep/txs_failed", 1)
			fmt.Printf("  tx failed during %s: %.200s\n", what, t.Log)
		}
	}
	d.rec.Count("dep/blocks", 1)
	d.observe(what)
	return true
}

func (d *depWorld) skipTo50(what string) bool {
	for {
		if !d.block(what) {
			return false
		}
		if d.c.Height%50 == 0 {
			return true
		}
	}
}

func (d *depWorld) registered(ref string) (string, bool) {
	ci, err := d.c.App.EvmKeeper.GetChainInfo(d.c.Ctx(), ref)
	if err != nil {
		return "", false
	}
	return string(ci.SmartContractUniqueID), true
}

// observe: every batch as handed out; judge the ones that were issued / re-issued since the last look.
func (d *depWorld) observe(what string) {
	ctx := d.c.Ctx()
	stored, err := d.c.App.SkywayKeeper.GetOutgoingTxBatches(ctx) // enumeration only
	if err != nil {
		return
	}
	sort.Slice(stored, func(i, j int) bool {
		a, b := stored[i], stored[j]
		if a.TokenContract.GetAddress() != b.TokenContract.GetAddress() {
			return a.TokenContract.GetAddress().Hex() < b.TokenContract.GetAddress().Hex()
		}
		return a.BatchNonce < b.BatchNonce
	})
	now := map[string]bool{}
	for _, sb := range stored {
		contract := sb.TokenContract.GetAddress().Hex()
		key := fmt.Sprintf("%s|%d", strings.ToLower(contract), sb.BatchNonce)
		now[key] = true
		resp, err := d.c.App.SkywayKeeper.BatchRequestByNonce(ctx, &skywaytypes.QueryBatchRequestByNonceRequest{Nonce: sb.BatchNonce, ContractAddress: contract})
		if err != nil || resp == nil {
			d.rec.Count("dep/query_by_nonce_failed", 1)
			continue
		}
		handed := resp.Batch
		cur := batchSeen{bytes: hex.EncodeToString(handed.BytesToSign), gas: handed.GasEstimate}
		prev, had := d.seen[key]
		site := ""
		switch {
		case !had:
			site = "batch-build"
		case prev.gas != cur.gas:
			site = "estimate-election"
		case prev.bytes != cur.bytes:
			site = "rewrite"
		}
		d.seen[key] = cur
		if site == "" {
			continue
		}
		d.note("%s: batch %s nonce %d on %s %s (estimate %d, %d txs)", what, contract, handed.BatchNonce, handed.ChainReferenceId, site, handed.GasEstimate, len(handed.Transactions))
		if !d.judge(site, "BatchRequestByNonce", &handed, what) {
			continue // reported; the relayer-facing list hands out the same stored object
		}
		// the relayer-facing list (withheld while a deployment / valset update is pending or no estimate is elected)
		if lr, err := d.c.App.SkywayKeeper.OutgoingTxBatches(ctx, &skywaytypes.QueryOutgoingTxBatchesRequest{ChainReferenceId: handed.ChainReferenceId, Assignee: handed.Assignee}); err == nil && lr != nil {
			for i := range lr.Batches {
				lb := lr.Batches[i]
				if lb.BatchNonce == handed.BatchNonce && strings.EqualFold(lb.TokenContract, handed.TokenContract) {
					d.rec.Count("dep/handed_out_to_relayer_checked", 1)
					d.judge(site, "OutgoingTxBatches", &lb, what)
				}
			}
		}
	}
	for k := range d.seen {
		if !now[k] {
			delete(d.seen, k)
			d.rec.Count("dep/batches_gone", 1)
		}
	}
}

func id32Equal(a, b string) bool { return deploymentID32(a) == deploymentID32(b) }

// judge returns false when it reported something.
func (d *depWorld) judge(site, surface string, b *skywaytypes.OutgoingTxBatch, what string) bool {
	rec := d.rec
	reg, ok := d.registered(b.ChainReferenceId)
	if !ok {
		// no registration, nothing the bytes could be required to bind
		rec.Count("dep/issued_while_chain_unregistered", 1)
		return true
	}
	want, ok := referenceCheckpoint(b, reg)
	if !ok {
		rec.Count("dep/reference_not_applicable", 1)
		return true
	}
	rec.Eval(1)
	rec.Count("dep/issues_judged", 1)
	rec.Count("dep/issues_judged/"+site, 1)
	if d.phase == "after" && d.history != "none" {
		rec.Count("dep/issues_judged_after_history", 1)
		rec.Count("dep/issues_judged_after_history/"+d.history+"/"+site, 1)
	}
	if reg != d.lastAct[b.ChainReferenceId] {
		// the situation the histories exist for: the registered id is not the one the latest activation call carried
		rec.Count("dep/issues_judged_registered_id_not_last_activated", 1)
		rec.Count("dep/issues_judged_registered_id_not_last_activated/"+site, 1)
	}
	wit := func(extra map[string]any) map[string]any {
		w := map[string]any{"history": d.history, "phase": d.phase, "height": d.c.Height, "during": what, "surface": surface,
			"chain": b.ChainReferenceId, "token_contract": b.TokenContract, "batch_nonce": b.BatchNonce, "gas_estimate": b.GasEstimate,
			"registered_deployment_id": reg, "bytes_to_sign": hex.EncodeToString(b.BytesToSign), "reference_checkpoint_for_registered_id": hex.EncodeToString(want),
			"notes": tail(d.notes, 40)}
		for k, v := range extra {
			w[k] = v
		}
		return w
	}
	if bytes.Equal(b.BytesToSign, want) {
		held := true
		d.inSync = true
		rec.Count("dep/bytes_bind_registered_id", 1)
		for _, other := range d.known {
			if id32Equal(other, reg) {
				continue
			}
			rec.Eval(1)
			o, ok := referenceCheckpoint(b, other)
			if ok && bytes.Equal(o, b.BytesToSign) {
				// cannot happen short of a keccak collision; kept so that "differs for any other id" is evaluated, not assumed
				rec.Violation("batch-sign-bytes/"+site+"/same-bytes-for-two-deployment-ids", fmt.Sprintf("bytes to sign of batch %d are the checkpoint for %q and for %q", b.BatchNonce, reg, other), wit(map[string]any{"other_id": other}))
				held = false
			}
			rec.Count("dep/other_ids_rejected", 1)
		}
		rec.Distinct(fmt.Sprintf("%s|%s|%d|%s|%s|%d", d.name, b.TokenContract, b.BatchNonce, site, reg, b.GasEstimate))
		return held
	}
	// the handed-out bytes are not the checkpoint for the registered deployment. Which deployment do they authorise?
	for _, other := range d.known {
		if id32Equal(other, reg) {
			continue
		}
		if o, ok := referenceCheckpoint(b, other); ok && bytes.Equal(o, b.BytesToSign) {
			rec.Violation("batch-sign-bytes/"+site+"/binds-deployment-id-other-than-the-registered-one",
				fmt.Sprintf("history %q: batch %d of %s (%s) is handed out with bytes to sign that are the checkpoint for deployment id %q, but the chain is registered with deployment id %q: signatures over them authorise a different deployment",
					d.history, b.BatchNonce, b.TokenContract, b.ChainReferenceId, other, reg), wit(map[string]any{"bound_deployment_id": other}))
			return false
		}
	}
	// encoding drift? classify with the code's own encoder: does it reproduce the bytes for another id only?
	codeCP := func(id string) []byte {
		defer func() { _ = recover() }()
		cp, err := b.GetCheckpoint(id)
		if err != nil {
			return nil
		}
		return cp
	}
	if own := codeCP(reg); own == nil || !bytes.Equal(own, b.BytesToSign) {
		for _, other := range d.known {
			if id32Equal(other, reg) {
				continue
			}
			if o := codeCP(other); o != nil && bytes.Equal(o, b.BytesToSign) {
				rec.Violation("batch-sign-bytes/"+site+"/binds-deployment-id-other-than-the-registered-one",
					fmt.Sprintf("history %q: batch %d of %s (%s): the code's own checkpoint reproduces the handed-out bytes for deployment id %q, not for the registered %q",
						d.history, b.BatchNonce, b.TokenContract, b.ChainReferenceId, other, reg), wit(map[string]any{"bound_deployment_id": other, "classified_by": "GetCheckpoint"}))
				return false
			}
		}
	}
	if !d.inSync {
		d.failed = true
		rec.Inconclusive(fmt.Sprintf("reference checkpoint encoder out of sync: batch %d of %s issued at %s does not match the reference for the registered id %q (no other known id matches either)", b.BatchNonce, b.TokenContract, site, reg))
		return false
	}
	rec.Violation("batch-sign-bytes/"+site+"/not-the-checkpoint-for-the-registered-deployment-id",
		fmt.Sprintf("history %q: batch %d of %s (%s) is handed out with bytes to sign that are not the checkpoint for the deployment id %q the chain is registered with (the reference encoder reproduced earlier checkpoints of this case)",
			d.history, b.BatchNonce, b.TokenContract, b.ChainReferenceId, reg), wit(nil))
	return false
}

// ---------------------------------------------------------------------------------------------
// workload

func (d *depWorld) tokensOf(ref string) []world.Token {
	var out []world.Token
	for _, t := range d.bw.Tokens {
		if t.ChainRef == ref {
			out = append(out, t)
		}
	}
	return out
}

// sends: 1-4 send-to-remote txs per token of the chain, one block.
func (d *depWorld) sends(refs ...string) bool {
	for _, ref := range refs {
		for _, tk := range d.tokensOf(ref) {
			n := 1 + d.r.Intn(4)
			for i := 0; i < n; i++ {
				u := d.bw.Users[d.r.Intn(len(d.bw.Users))]
				dest := fmt.Sprintf("0x%040x", 0xD0000+d.r.Intn(1000))
				amt := int64(1000 + d.r.Intn(900_000))
				if err := d.c.QueueTx(u, 0, world.MsgSend(u, ref, dest, sdk.NewCoin(tk.Denom, sdkmath.NewInt(amt)))); err != nil {
					d.note("send tx: %v", err)
				}
				if !d.block("send to remote " + ref) {
					return false
				}
				d.rec.Count("dep/sends", 1)
			}
		}
	}
	return true
}

// elect: validators holding > 2/3 of the power send an estimate for every batch selected by want
// that has none yet; the skyway end-blocker of the same block elects the median and re-issues the bytes.
func (d *depWorld) elect(what string, want func(b skywaytypes.InternalOutgoingTxBatch) bool) bool {
	bs, _ := d.c.App.SkywayKeeper.GetOutgoingTxBatches(d.c.Ctx())
	sort.Slice(bs, func(i, j int) bool {
		if bs[i].BatchNonce != bs[j].BatchNonce {
			return bs[i].BatchNonce < bs[j].BatchNonce
		}
		return bs[i].TokenContract.GetAddress().Hex() < bs[j].TokenContract.GetAddress().Hex()
	})
	nv := len(d.bw.Vals)
	if d.r.Intn(3) == 0 {
		nv-- // 90 % of the power
	}
	off := make([]uint64, len(d.bw.Vals))
	n := 0
	for _, b := range bs {
		if b.GasEstimate != 0 || !want(b) {
			continue
		}
		base := uint64(40_000 + d.r.Intn(400_000))
		for i, v := range d.bw.Vals[:nv] {
			m := world.MsgBatchEstimate(v, b.BatchNonce, b.TokenContract.GetAddress().Hex(), base+uint64(d.r.Intn(5)))
			if err := d.c.QueueTx(v, off[i], m); err != nil {
				d.note("estimate tx: %v", err)
				continue
			}
			off[i]++
		}
		n++
		d.note("%s: estimates for batch %s nonce %d (%s) by %d validators", what, b.TokenContract.GetAddress().Hex(), b.BatchNonce, b.ChainReferenceID, nv)
	}
	if n == 0 {
		return true
	}
	d.rec.Count("dep/estimate_rounds", 1)
	return d.block(what)
}

func (d *depWorld) gov(content gogoproto.Message, what string) bool {
	anyC, err := codectypes.NewAnyWithValue(content)
	if err != nil {
		d.note("%s: %v", what, err)
		return false
	}
	if _, err = d.c.Direct(&govv1.MsgExecLegacyContent{Content: anyC, Authority: chain.GovAuthority()}, d.c.Height, d.c.Time); err != nil {
		d.note("%s failed: %v", what, err)
		return false
	}
	d.note("%s", what)
	return true
}

// activation: the exported keeper function the attested deployment flow ends in
// (SetSmartContractAsActive -> ActivateChainReferenceID), on a cache context written back on success.
func (d *depWorld) activation(ref string, sc *evmtypes.SmartContract, addr, uid string) bool {
	d.know(uid)
	cctx, write := d.c.Ctx().CacheContext()
	if err := d.c.App.EvmKeeper.ActivateChainReferenceID(cctx, ref, sc, addr, []byte(uid)); err != nil {
		d.note("activation of %s with compass #%d as %q failed: %v", ref, sc.GetId(), uid, err)
		return false
	}
	write()
	d.lastAct[ref] = uid
	reg, _ := d.registered(ref)
	d.note("activation call for %s: compass #%d at %s, id %q -> chain registered with %q", ref, sc.GetId(), addr, uid, reg)
	return true
}

func (d *depWorld) upgradeCompass() (*evmtypes.SmartContract, bool) {
	auth := chain.GovAuthority()
	m := &evmtypes.MsgDeployNewSmartContractProposalV2{Authority: auth, AbiJSON: chain.CompassABI(), BytecodeHex: chain.CompassBytecodeHex()}
	m.Metadata.Creator = auth
	m.Metadata.Signers = []string{auth}
	if _, err := d.c.Direct(m, d.c.Height, d.c.Time); err != nil {
		d.note("gov deploy new compass failed: %v", err)
		return nil, false
	}
	sc, err := d.c.App.EvmKeeper.GetLastCompassContract(d.c.Ctx())
	if err != nil {
		d.note("last compass: %v", err)
		return nil, false
	}
	d.note("governance deployed compass #%d", sc.GetId())
	return sc, true
}

// applyHistory brings the target chain into the state the case is about. Returns false when the
// history could not be produced (INCONCLUSIVE: the scenario the case exists for did not happen).
func (d *depWorld) applyHistory(ref string, idx int) bool {
	old, err := d.c.App.EvmKeeper.GetLastCompassContract(d.c.Ctx())
	if err != nil {
		d.note("last compass: %v", err)
		return false
	}
	addr := func(k int) string { return fmt.Sprintf("0x%040x", 0xC0DE100+16*k+idx) }
	before, _ := d.registered(ref)
	switch d.history {
	case "none":
		return true
	case "stale-activation-same-version":
		if !d.activation(ref, old, addr(1), "compass-"+ref+"-late") {
			return false
		}
		after, _ := d.registered(ref)
		if after != before {
			d.note("the late activation changed the registration (%q -> %q)", before, after)
		}
		return true
	case "compass-upgrade", "compass-upgrade-then-stale-older-version":
		sc2, ok := d.upgradeCompass()
		if !ok || sc2.GetId() <= old.GetId() {
			return false
		}
		if !d.block("after compass upgrade proposal") {
			return false
		}
		if !d.activation(ref, sc2, addr(2), "compass-"+ref+"-2") {
			return false
		}
		if d.history == "compass-upgrade" {
			return true
		}
		if !d.block("after activation of the new compass") {
			return false
		}
		return d.activation(ref, old, addr(3), "compass-"+ref+"-1b")
	case "chain-re-registered", "chain-re-registered-and-re-activated":
		ci, err := d.c.App.EvmKeeper.GetChainInfo(d.c.Ctx(), ref)
		if err != nil {
			return false
		}
		if !d.gov(&evmtypes.RemoveChainProposal{Title: "rm", Description: "rm", ChainReferenceID: ref}, "gov remove chain "+ref) {
			return false
		}
		if d.r.Intn(2) == 0 {
			if !d.block("chain removed") {
				return false
			}
		}
		if !d.gov(&evmtypes.AddChainProposal{Title: "add", Description: "add", ChainReferenceID: ref, ChainID: ci.ChainID,
			BlockHeight: 100, BlockHashAtHeight: "0x" + strings.Repeat("cd", 32), MinOnChainBalance: "0"}, "gov add chain "+ref) {
			return false
		}
		d.gov(&evmtypes.SetFeeManagerAddressProposal{Title: "fm", Summary: "fm", ChainReferenceID: ref, FeeManagerAddress: "0x00000000000000000000000000000000000000fe"}, "gov fee manager "+ref)
		if d.history == "chain-re-registered" {
			return true
		}
		if !d.block("chain re-added") {
			return false
		}
		return d.activation(ref, old, addr(4), "compass-"+ref+"-again")
	}
	return false
}

func runDep(c fw.Case, tier string, rec *fw.Recorder) {
	var p depParams
	c.Decode(&p)
	r := c.Rand()
	refs := []string{"eth-main", "bnb-main"}
	bw, err := world.NewBridgeWorld(world.BridgeOpts{Prefix: "c05/" + c.Name, Stakes: []int64{40_000_000, 30_000_000, 20_000_000, 10_000_000},
		NUsers: 2, Chains: refs, FactorySubs: []string{"tok"}, MapUgrain: true})
	if bw != nil && bw.C != nil {
		defer bw.C.Close()
	}
	if err != nil {
		rec.Inconclusive("bridge world: " + err.Error())
		return
	}
	d := &depWorld{bw: bw, c: bw.C, rec: rec, r: r, name: c.Name, history: p.History, phase: "before", seen: map[string]batchSeen{}, lastAct: map[string]string{}}
	d.know("")
	for _, ref := range refs {
		d.lastAct[ref] = bw.Compass[ref]
		d.know(bw.Compass[ref])
		d.know(ref)
	}
	idx := r.Intn(len(refs))
	target, control := refs[idx], refs[1-idx]
	rec.Op(map[string]any{"op": "setup", "history": p.History, "target": target, "rounds": p.Rounds})
	bw.KeepAlive()
	if !d.block("keep-alive") {
		return
	}

	// round 0: batches of both chains are built while every chain is in the plain "activated once" state
	if !d.sends(target, control) || !d.skipTo50("to batch build") {
		return
	}
	tks := d.tokensOf(target)
	if len(tks) < 2 {
		rec.Inconclusive("bridge world has fewer than two tokens on " + target)
		return
	}
	early := strings.ToLower(tks[r.Intn(len(tks))].ERC20) // this batch of the target chain gets its estimate BEFORE the history step
	if !d.elect("estimates before the history step", func(b skywaytypes.InternalOutgoingTxBatch) bool {
		return b.ChainReferenceID == control || strings.ToLower(b.TokenContract.GetAddress().Hex()) == early
	}) {
		return
	}
	pending := 0
	bs, _ := d.c.App.SkywayKeeper.GetOutgoingTxBatches(d.c.Ctx())
	for _, b := range bs {
		if b.ChainReferenceID == target && b.GasEstimate == 0 {
			pending++
		}
	}
	if pending == 0 {
		rec.Inconclusive("no batch of the target chain is waiting for its estimate before the history step")
		return
	}

	rec.Op(map[string]any{"op": "history", "history": p.History, "target": target, "height": d.c.Height})
	if !d.applyHistory(target, idx) {
		if !d.failed {
			rec.Inconclusive(fmt.Sprintf("history %q could not be produced on %s", p.History, target))
		}
		return
	}
	d.phase = "after"
	rec.Count("dep/histories", 1)
	rec.Count("dep/histories/"+p.History, 1)
	d.observe("history " + p.History)
	if reg, ok := d.registered(target); ok {
		latest := d.c.App.SkywayKeeper.GetLatestCompassID(d.c.Ctx(), target)
		d.note("after %s: %s registered with %q; skyway's latest-compass record says %q", p.History, target, reg, latest)
		if latest != reg {
			rec.Count("dep/registration_and_bridge_record_diverge", 1)
		}
	}

	// the estimate of the waiting batch(es) is elected in the state the history left behind
	if !d.elect("estimates after the history step", func(skywaytypes.InternalOutgoingTxBatch) bool { return true }) {
		return
	}
	// further rounds: new batches are built and elected in that state
	for round := 0; round < p.Rounds && rec.Violations() == 0; round++ {
		if !d.sends(target, control) || !d.skipTo50("to next batch build") {
			return
		}
		if !d.elect(fmt.Sprintf("estimates, round %d after the history step", round+1), func(skywaytypes.InternalOutgoingTxBatch) bool { return true }) {
			return
		}
		if !d.block("idle") {
			return
		}
	}
	rec.Sample(map[string]any{"case": c.Name, "history": p.History, "target": target, "blocks": d.c.Height, "known_ids": d.known, "notes": tail(d.notes, 30)})
}
