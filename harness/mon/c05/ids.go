package c05

// Part 2: ids handed out by the consensus queues on the REAL chain.
//
// Observation points (after every block / direct-mode call):
//   (a) the keeper's own "put message into consensus queue" INFO line (queue, id) - the value
//       PutMessageInQueue returned, in issue order;
//   (b) a raw scan of the consensus module store: every key under the queue prefix is
//       (queue name, id) -> stored QueuedSignedMessage. The scan sees every queue of every chain,
//       also queues of removed chains the keeper no longer lists;
//   (c) MsgExecuteJobResponse.MessageID of job executions.
// Oracle (reference model = everything seen so far):
//   - every issued id is > every id committed before (strictly increasing for the lifetime of the chain)
//   - an id lives in exactly one queue, and the id inside the stored value equals the key
//   - an id that left the store never comes back (no reuse after remove / prune / chain removal)
//   - replace (fee attachment, re-assignment) keeps id and queue; only the content changes

import (
	"encoding/binary"
	"encoding/hex"
	"encoding/json"
	"fmt"
	"math/rand"
	"sort"
	"strconv"
	"strings"
	"time"

	sdkmath "cosmossdk.io/math"
	codectypes "github.com/cosmos/cosmos-sdk/codec/types"
	sdk "github.com/cosmos/cosmos-sdk/types"
	govv1 "github.com/cosmos/cosmos-sdk/x/gov/types/v1"
	stakingtypes "github.com/cosmos/cosmos-sdk/x/staking/types"
	gogoproto "github.com/cosmos/gogoproto/proto"

	consensustypes "github.com/palomachain/paloma/v2/x/consensus/types"
	evmtypes "github.com/palomachain/paloma/v2/x/evm/types"
	schedulertypes "github.com/palomachain/paloma/v2/x/scheduler/types"
	treasurytypes "github.com/palomachain/paloma/v2/x/treasury/types"

	"verif/harness/chain"
	"verif/harness/fw"
	"verif/harness/world"
)

const queuePrefix = "consensus-queue-signing-type-"

type idParams struct {
	Mode      string `json:"mode"`
	Chains    int    `json:"chains"`
	Steps     int    `json:"steps"`
	Long      bool   `json:"long"`       // run past height 10000 (scheduled reference-block messages)
	LongSkips int    `json:"long_skips"` // budget of 300-block skips (scheduled balances, pruning)
}

func idCases(tier string, seed int64, n int) []fw.Case {
	var cs []fw.Case
	steps, ls := 60, 2
	if tier == "thorough" {
		steps, ls = 150, 5
	}
	for i := 0; i < n; i++ {
		p := idParams{Mode: "ids", Chains: 2 + i%2, Steps: steps, LongSkips: ls, Long: i == 0 && tier == "thorough"}
		cs = append(cs, fw.MkCase(fmt.Sprintf("ids-%03d", i), seed*7000003+int64(i)+1, p))
	}
	return cs
}

type entry struct {
	Queue string
	ID    uint64
}

type idWorld struct {
	c        *chain.Chain
	rec      *fw.Recorder
	r        *rand.Rand
	vals     []*chain.Account
	users    []*chain.Account
	refs     []string // all chain reference ids of the world
	chainIDs map[string]uint64
	active   map[string]bool   // chain currently exists
	version  map[string]int    // activations so far (unique id suffix)
	jobs     map[string]string // ref -> job id

	// reference model
	hw            uint64            // highest id seen anywhere so far
	owner         map[uint64]string // id -> queue it was first seen in
	live          map[entry]string  // entries in the store at the last scan -> hash of Msg content
	dead          map[uint64]int64  // ids that left the store -> height
	history       []string          // compact op history for witnesses
	stepNo        int
	name          string
	expectJob     []jobExpect
	apiCalls      int
	expectReplace *entry // set by queueAPI right before a legitimate replace-in-place call
}

type jobExpect struct {
	ID    uint64
	Queue string
}

func (w *idWorld) note(format string, a ...any) {
	s := fmt.Sprintf("h%d ", w.c.Height) + fmt.Sprintf(format, a...)
	if len(w.history) < 4000 {
		w.history = append(w.history, s)
	}
	fmt.Println(s)
}

func (w *idWorld) violation(sig, msg string, extra map[string]any) {
	wit := map[string]any{"height": w.c.Height, "history_tail": tail(w.history, 60)}
	for k, v := range extra {
		wit[k] = v
	}
	w.rec.Violation(sig, msg, wit)
}

func tail(s []string, n int) []string {
	if len(s) > n {
		return s[len(s)-n:]
	}
	return s
}

// observe: called after every block and after every direct write.
func (w *idWorld) observe(what string) {
	rec := w.rec
	hwBefore := w.hw
	// (a) put log lines, in order
	issued := map[uint64][]string{} // id -> queues of the put lines of this block
	for _, l := range w.c.Log.Drain() {
		if l.Msg != "put message into consensus queue" {
			continue
		}
		var q string
		var id uint64
		var okID bool
		for _, kv := range l.KV {
			if strings.HasPrefix(kv, "queue-type-name=") {
				q = strings.TrimPrefix(kv, "queue-type-name=")
			}
			if strings.HasPrefix(kv, "message-id=") {
				v, err := strconv.ParseUint(strings.TrimPrefix(kv, "message-id="), 10, 64)
				if err == nil {
					id, okID = v, true
				}
			}
		}
		if !okID {
			continue
		}
		rec.Count("ids_issued", 1)
		rec.Count("ids_issued/"+queueKind(q), 1)
		rec.Eval(1)
		if w.expectReplace != nil && *w.expectReplace == (entry{q, id}) {
			// the direct API step asked to replace exactly this live message in place: same queue, same id
			w.expectReplace = nil
			rec.Count("ids_api_replace_in_place", 1)
			continue
		}
		if id <= hwBefore {
			// hwBefore = highest id seen COMMITTED in the store before this block. Put lines are
			// tentative (the surrounding cache context / tx may still be rolled back, in which
			// case handing the same id out again is legitimate); committed ids are not.
			prevQ := w.owner[id]
			sig := "queue-id/not-increasing"
			if prevQ != "" && prevQ != q {
				sig = "queue-id/duplicate-across-queues"
			} else if prevQ != "" {
				sig = "queue-id/reused"
			}
			w.violation(sig, fmt.Sprintf("PutMessageInQueue(%s) returned id %d although ids up to %d were already committed (id %d first seen in %q)", q, id, hwBefore, id, prevQ),
				map[string]any{"queue": q, "id": id, "high_water": hwBefore, "first_seen_in": prevQ, "during": what})
		}
		issued[id] = append(issued[id], q)
	}
	// (b) raw store scan
	now := map[entry]string{}
	byID := map[uint64][]string{}
	st := w.c.KVStore(w.c.Ctx(), consensustypes.StoreKey)
	it := st.Iterator([]byte(queuePrefix), append([]byte(queuePrefix), 0xff))
	for ; it.Valid(); it.Next() {
		k := it.Key()
		if len(k) < len(queuePrefix)+8 {
			continue
		}
		q := strings.TrimPrefix(string(k[len(queuePrefix):len(k)-8]), "-")
		id := binary.BigEndian.Uint64(k[len(k)-8:])
		var qm consensustypes.QueuedSignedMessageI
		content := ""
		if err := w.c.App.AppCodec().UnmarshalInterface(it.Value(), &qm); err == nil {
			if qm.GetId() != id {
				w.violation("queue-id/key-value-mismatch", fmt.Sprintf("queue %s stores a message with id %d under key id %d", q, qm.GetId(), id), map[string]any{"queue": q})
			}
			if m := qm.GetMsg(); m != nil {
				content = short(m.Value)
			}
		}
		now[entry{q, id}] = content
		byID[id] = append(byID[id], q)
	}
	it.Close()
	rec.Count("store_scans", 1)
	for id, qs := range byID {
		if len(qs) > 1 {
			sort.Strings(qs)
			w.violation("queue-id/duplicate-across-queues", fmt.Sprintf("id %d is in %d queues at once: %v", id, len(qs), qs), map[string]any{"id": id, "queues": qs, "during": what})
		}
	}
	var newIDs []uint64
	for e, content := range now {
		old, was := w.live[e]
		if was {
			if old != content {
				rec.Count("ids_replaced_in_place", 1) // same id, same queue, new message content
				w.note("replaced in place: %s #%d", e.Queue, e.ID)
			}
			continue
		}
		// a new entry
		rec.Eval(1)
		rec.Count("ids_new_in_store", 1)
		newIDs = append(newIDs, e.ID)
		if h, wasDead := w.dead[e.ID]; wasDead {
			w.violation("queue-id/reused-after-removal", fmt.Sprintf("id %d re-appears in queue %s after it left the store at height %d", e.ID, e.Queue, h),
				map[string]any{"id": e.ID, "queue": e.Queue, "removed_at": h, "during": what})
		}
		if first, ok := w.owner[e.ID]; ok && first != e.Queue {
			w.violation("queue-id/duplicate-across-queues", fmt.Sprintf("id %d was handed out for queue %s and now shows up in queue %s", e.ID, first, e.Queue),
				map[string]any{"id": e.ID, "queues": []string{first, e.Queue}, "during": what})
		}
		if pq, viaPut := issued[e.ID]; viaPut && !contains(pq, e.Queue) {
			w.violation("queue-id/duplicate-across-queues", fmt.Sprintf("id %d was returned by PutMessageInQueue(%v) but is stored in queue %s", e.ID, pq, e.Queue),
				map[string]any{"id": e.ID, "queues": append(append([]string{}, pq...), e.Queue), "during": what})
		}
		if _, viaPut := issued[e.ID]; !viaPut {
			rec.Count("ids_new_without_put_line", 1)
			if e.ID <= hwBefore {
				w.violation("queue-id/not-increasing", fmt.Sprintf("new message in %s has id %d <= highest id seen before (%d)", e.Queue, e.ID, hwBefore),
					map[string]any{"id": e.ID, "queue": e.Queue, "high_water": hwBefore, "during": what})
			}
		}
		if _, ok := w.owner[e.ID]; !ok {
			w.owner[e.ID] = e.Queue
		}
		if e.ID > w.hw {
			w.hw = e.ID
		}
		rec.Distinct(fmt.Sprintf("%s|%s|%d", w.name, e.Queue, e.ID))
	}
	for e := range w.live {
		if _, still := now[e]; !still {
			rec.Count("ids_removed", 1)
			rec.Count("ids_removed/"+queueKind(e.Queue), 1)
			w.dead[e.ID] = w.c.Height
			w.note("left store: %s #%d", e.Queue, e.ID)
		}
	}
	for id, qs := range issued {
		inStore := false
		for _, q := range qs {
			_, ok := now[entry{q, id}]
			inStore = inStore || ok
		}
		if !inStore {
			// created and removed within the block, or rolled back with its cache context: the
			// id stays unconfirmed and takes no part in the reference model
			rec.Count("ids_issued_not_in_store_at_block_end", 1)
		}
	}
	w.live = now
	if len(newIDs) > 0 {
		sort.Slice(newIDs, func(i, j int) bool { return newIDs[i] < newIDs[j] })
		w.note("%s: new ids %v (hw %d)", what, newIDs, w.hw)
	}
	// (c) job responses
	for _, je := range w.expectJob {
		rec.Eval(1)
		rec.Count("job_response_ids", 1)
		if qs, ok := issued[je.ID]; !ok || !contains(qs, je.Queue) {
			w.violation("queue-id/response-mismatch", fmt.Sprintf("MsgExecuteJobResponse.MessageID=%d but the put line of this block says %v", je.ID, issued),
				map[string]any{"response_id": je.ID, "queue": je.Queue})
		}
	}
	w.expectJob = nil
}

func contains(l []string, s string) bool {
	for _, x := range l {
		if x == s {
			return true
		}
	}
	return false
}

func queueKind(q string) string {
	if i := strings.LastIndex(q, "/"); i >= 0 {
		return q[i+1:]
	}
	return q
}

// ---------------------------------------------------------------------------------------------
// driving the chain

var tBlock, tObs time.Duration

func (w *idWorld) block(what string) bool {
	t0 := time.Now()
	br := w.c.NextBlock()
	tBlock += time.Since(t0)
	defer func(t time.Time) { tObs += time.Since(t) }(time.Now())
	if br.Panic != "" || br.Err != nil {
		w.rec.Count("block_failures", 1)
		w.note("BLOCK FAILED during %s: %v %.300s", what, br.Err, br.Panic)
		w.rec.Inconclusive(fmt.Sprintf("FinalizeBlock failed during %s at height %d: %v %.200s", what, w.c.Height+1, br.Err, br.Panic))
		return false
	}
	for _, t := range br.Txs {
		if t.OK() {
			w.rec.Count("txs_ok", 1)
		} else {
			w.rec.Count("txs_failed", 1)
			fmt.Printf("  tx failed during %s: %.200s\n", what, t.Log)
		}
	}
	w.observe(what)
	return true
}

func (w *idWorld) skip(n int, what string) bool {
	for i := 0; i < n; i++ {
		if !w.block(what) {
			return false
		}
	}
	return true
}

func (w *idWorld) skipTo(mod int64, what string) bool {
	for {
		if !w.block(what) {
			return false
		}
		if w.c.Height%mod == 0 {
			return true
		}
	}
}

func (w *idWorld) deliver(signer *chain.Account, what string, msgs ...sdk.Msg) (chain.TxResult, bool) {
	if err := w.c.QueueTx(signer, 0, msgs...); err != nil {
		w.note("cannot build tx for %s: %v", what, err)
		return chain.TxResult{Code: 99999}, false
	}
	br := w.c.NextBlock()
	if br.Panic != "" || br.Err != nil {
		w.rec.Inconclusive(fmt.Sprintf("FinalizeBlock failed during %s at height %d: %v %.200s", what, w.c.Height+1, br.Err, br.Panic))
		return chain.TxResult{Code: 99998}, false
	}
	res := br.Txs[len(br.Txs)-1]
	if res.OK() {
		w.rec.Count("txs_ok", 1)
	} else {
		w.rec.Count("txs_failed", 1)
		fmt.Printf("  tx failed during %s: %.300s\n", what, res.Log)
	}
	return res, true
}

func (w *idWorld) liveRefs() []string {
	var out []string
	for _, r := range w.refs {
		if w.active[r] {
			out = append(out, r)
		}
	}
	return out
}

func (w *idWorld) queueMsgs(q string) []consensustypes.QueuedSignedMessageI {
	msgs, err := w.c.App.ConsensusKeeper.GetMessagesFromQueue(w.c.Ctx(), q, 0)
	if err != nil {
		return nil
	}
	return msgs
}

func (w *idWorld) activate(ref string) {
	w.version[ref]++
	uid := fmt.Sprintf("compass-%s-v%d", ref, w.version[ref])
	addr := fmt.Sprintf("0x%040x", 0xc0de00+w.version[ref]*16+len(ref))
	// make sure the chain info can take a "newer" contract: ActivateChainReferenceID ignores
	// contracts that are not newer than the active one; a re-added chain starts from 0.
	if err := world.ActivateChain(w.c, ref, addr, []byte(uid)); err != nil {
		w.note("activate %s failed: %v", ref, err)
		return
	}
	w.note("activated %s as %s", ref, uid)
	w.observe("activate " + ref)
}

func (w *idWorld) createJob(ref string) {
	id := fmt.Sprintf("job-%s", strings.ReplaceAll(ref, "-", ""))
	def, _ := json.Marshal(evmtypes.JobDefinition{Address: "0x5A0b54D5dc17e0AadC383d2db43B0a0D3E029c4c", ABI: "[]"})
	pl, _ := json.Marshal(evmtypes.JobPayload{HexPayload: "0xdeadbeef"})
	u := w.users[0]
	job := &schedulertypes.Job{ID: id, Routing: schedulertypes.Routing{ChainType: "evm", ChainReferenceID: ref}, Definition: def, Payload: pl, IsPayloadModifiable: true}
	res, ok := w.deliver(u, "create job "+id, &schedulertypes.MsgCreateJob{Job: job, Metadata: world.Meta(u)})
	if ok {
		w.observe("create job")
	}
	if ok && res.OK() {
		w.jobs[ref] = id
		w.note("created job %s", id)
	}
}

func (w *idWorld) execJob(ref string) {
	id, ok := w.jobs[ref]
	if !ok {
		return
	}
	u := w.users[w.r.Intn(len(w.users))]
	pl, _ := json.Marshal(evmtypes.JobPayload{HexPayload: "0x" + hex.EncodeToString(rBytes(w.r, 4+w.r.Intn(64)))})
	res, okb := w.deliver(u, "execute job on "+ref, &schedulertypes.MsgExecuteJob{JobID: id, Payload: pl, Metadata: world.Meta(u)})
	if !okb {
		return
	}
	if res.OK() {
		w.rec.Count("ops/job_executed", 1)
		var td sdk.TxMsgData
		if err := td.Unmarshal(res.Data); err == nil && len(td.MsgResponses) > 0 {
			var resp schedulertypes.MsgExecuteJobResponse
			if err := resp.Unmarshal(td.MsgResponses[0].Value); err == nil {
				w.expectJob = append(w.expectJob, jobExpect{ID: resp.MessageID, Queue: world.TurnstoneQueue(ref)})
				w.note("job %s executed on %s -> message id %d", id, ref, resp.MessageID)
			}
		}
	} else {
		w.rec.Count("ops/job_exec_failed", 1)
	}
	w.observe("execute job on " + ref)
}

// estimates: validators holding >= 2/3 send a gas estimate for every message of the chain's
// turnstone queue that still needs one; the consensus end-blocker then elects the estimate and,
// for fee-paying messages, REPLACES the message under the same id (Put with MsgIDToReplace).
func (w *idWorld) estimates(ref string) {
	q := world.TurnstoneQueue(ref)
	var need []uint64
	for _, m := range w.queueMsgs(q) {
		if m.GetRequireGasEstimation() && m.GetGasEstimate() == 0 && len(m.GetGasEstimates()) == 0 {
			need = append(need, m.GetId())
		}
	}
	if len(need) == 0 {
		return
	}
	if len(need) > 3 {
		need = need[:3]
	}
	nv := len(w.vals)
	if w.r.Intn(4) == 0 {
		nv = 3 // 90 % of the power is still enough
	}
	for _, v := range w.vals[:nv] {
		m := &consensustypes.MsgAddMessageGasEstimates{Metadata: world.Meta(v)}
		for _, id := range need {
			m.Estimates = append(m.Estimates, &consensustypes.MsgAddMessageGasEstimates_GasEstimate{
				MsgId: id, QueueTypeName: q, Value: uint64(100_000 + w.r.Intn(50_000)), EstimatedByAddress: v.EthAddr()})
		}
		if err := w.c.QueueTx(v, 0, m); err != nil {
			w.note("estimate tx: %v", err)
		}
	}
	w.rec.Count("ops/estimate_rounds", 1)
	w.note("gas estimates for %s %v by %d validators", q, need, nv)
	w.block("gas estimates " + ref)
}

func (w *idWorld) sign(ref string) {
	q := world.TurnstoneQueue(ref)
	if len(w.queueMsgs(q)) == 0 {
		return
	}
	for _, v := range w.vals {
		todo, err := w.c.App.ConsensusKeeper.GetMessagesForSigning(w.c.Ctx(), q, v.ValAddr())
		if err != nil || len(todo) == 0 {
			continue
		}
		var ids []uint64
		for _, t := range todo {
			if len(ids) < 5 {
				ids = append(ids, t.GetId())
			}
		}
		m, err := world.MsgSign(w.c, v, q, ids...)
		if err != nil || len(m.SignedMessages) == 0 {
			continue
		}
		w.c.QueueTx(v, 0, m)
	}
	w.rec.Count("ops/sign_rounds", 1)
	w.block("sign " + ref)
}

// errorEvidence: all validators attest that the relay of one message failed; the message is
// removed from the queue (and a SubmitLogicCall is re-enqueued under a NEW id, up to 2 retries).
func (w *idWorld) errorEvidence(q string, newest bool) {
	msgs := w.queueMsgs(q)
	if len(msgs) == 0 {
		return
	}
	m := msgs[w.r.Intn(len(msgs))]
	if newest {
		m = msgs[len(msgs)-1]
	}
	var pm gogoproto.Message = &evmtypes.SmartContractExecutionErrorProof{ErrorMessage: "execution reverted"}
	switch queueKind(q) {
	case "reference-block":
		pm = &evmtypes.ReferenceBlockAttestationRes{BlockHeight: uint64(1000 + w.c.Height), BlockHash: "0x" + strings.Repeat("ef", 32)}
	case "validators-balances":
		res := &evmtypes.ValidatorBalancesAttestationRes{BlockHeight: uint64(1000 + w.c.Height)}
		if cm, err := m.ConsensusMsg(w.c.App.AppCodec()); err == nil {
			if req, ok := cm.(*evmtypes.ValidatorBalancesAttestation); ok {
				for range req.HexAddresses {
					res.Balances = append(res.Balances, "1000000000000000000")
				}
			}
		}
		pm = res
	}
	proof, err := codectypes.NewAnyWithValue(pm)
	if err != nil {
		return
	}
	for _, v := range w.vals {
		w.c.QueueTx(v, 0, &consensustypes.MsgAddEvidence{Proof: proof, MessageID: m.GetId(), QueueTypeName: q, Metadata: world.Meta(v)})
	}
	w.rec.Count("ops/error_evidence_rounds", 1)
	w.note("evidence (%T) for %s #%d", pm, q, m.GetId())
	w.block("error evidence " + q)
}

// newestLiveQueue: the queue (of a chain that currently exists) holding the highest id in the store.
func (w *idWorld) newestLiveQueue() (string, bool) {
	var best entry
	found := false
	for e := range w.live {
		parts := strings.Split(e.Queue, "/")
		if len(parts) != 3 || !w.active[parts[1]] {
			continue
		}
		if !found || e.ID > best.ID {
			best, found = e, true
		}
	}
	if found && best.ID == w.hw {
		w.rec.Count("ops/newest_message_attested", 1)
	}
	return best.Queue, found
}

func (w *idWorld) delegate() {
	u := w.users[1]
	v := w.vals[w.r.Intn(len(w.vals))]
	amt := int64(100_000 * (1 + w.r.Intn(30)))
	res, ok := w.deliver(u, "delegate", &stakingtypes.MsgDelegate{DelegatorAddress: u.Bech, ValidatorAddress: v.ValBech(), Amount: sdk.NewInt64Coin(chain.Denom, amt)})
	if ok {
		w.observe("delegate")
	}
	if ok && res.OK() {
		w.rec.Count("ops/delegations", 1)
		w.note("delegated %d to %s", amt, v.Name)
	}
}

func (w *idWorld) gov(content gogoproto.Message, what string) bool {
	anyC, err := codectypes.NewAnyWithValue(content)
	if err != nil {
		w.note("%s: %v", what, err)
		return false
	}
	_, err = w.c.Direct(&govv1.MsgExecLegacyContent{Content: anyC, Authority: chain.GovAuthority()}, w.c.Height, w.c.Time)
	if err != nil {
		w.note("%s failed: %v", what, err)
		return false
	}
	w.observe(what)
	return true
}

func (w *idWorld) removeChain(ref string) {
	if w.gov(&evmtypes.RemoveChainProposal{Title: "rm", Description: "rm", ChainReferenceID: ref}, "gov remove chain "+ref) {
		w.active[ref] = false
		w.rec.Count("ops/chain_removed", 1)
		w.note("removed chain %s", ref)
	}
}

func (w *idWorld) addChain(ref string) {
	if w.gov(&evmtypes.AddChainProposal{Title: "add", Description: "add", ChainReferenceID: ref, ChainID: w.chainIDs[ref],
		BlockHeight: 100, BlockHashAtHeight: "0x" + strings.Repeat("cd", 32), MinOnChainBalance: "0"}, "gov add chain "+ref) {
		w.active[ref] = true
		w.rec.Count("ops/chain_added", 1)
		w.note("re-added chain %s", ref)
		// fee manager (the genesis chains have one; governance sets it for added chains)
		w.gov(&evmtypes.SetFeeManagerAddressProposal{Title: "fm", Summary: "fm", ChainReferenceID: ref, FeeManagerAddress: "0x00000000000000000000000000000000000000fe"}, "gov fee manager "+ref)
		w.block("after add chain")
		w.activate(ref)
	}
}

// scheduled: the messages the evm end-blocker schedules (balances every 300 blocks, reference
// blocks every 10000) through the very keeper functions the end-blocker calls.
func (w *idWorld) scheduledDirect(ref string) {
	ctx := w.c.Ctx()
	switch w.r.Intn(3) {
	case 0:
		if err := w.c.App.EvmKeeper.ScheduleReferenceBlockForChain(ctx, ref); err == nil {
			w.rec.Count("ops/direct_reference_block", 1)
		}
	case 1:
		if err := w.c.App.EvmKeeper.CheckExternalBalancesForChain(ctx, ref); err == nil {
			w.rec.Count("ops/direct_balances", 1)
		}
	case 2:
		if err := w.c.App.EvmKeeper.CollectJobFundEvents(ctx); err == nil {
			w.rec.Count("ops/direct_collect_funds", 1)
		}
	}
	w.observe("keeper-scheduled message " + ref)
}

func runIDs(c fw.Case, tier string, rec *fw.Recorder) {
	var p idParams
	c.Decode(&p)
	r := c.Rand()
	allRefs := []string{"eth-main", "bnb-main", "base-main"}
	allIDs := map[string]uint64{"eth-main": 1, "bnb-main": 56, "base-main": 8453}
	refs := allRefs[:p.Chains]
	vals := chain.DefaultValidators("c05/"+c.Name, []int64{40_000_000, 30_000_000, 20_000_000, 10_000_000})
	u1 := chain.NewAccount("u1", "c05/u1/"+c.Name)
	u2 := chain.NewAccount("u2", "c05/u2/"+c.Name)
	var specs []chain.EVMChainSpec
	for _, ref := range refs {
		specs = append(specs, chain.EVMChainSpec{RefID: ref, ChainID: allIDs[ref]})
	}
	ch := chain.New(chain.Config{Validators: vals,
		Users:     map[*chain.Account]sdk.Coins{u1: sdk.NewCoins(sdk.NewInt64Coin(chain.Denom, 1_000_000_000)), u2: sdk.NewCoins(sdk.NewInt64Coin(chain.Denom, 1_000_000_000_000))},
		EVMChains: specs, WithCompass: true, CaptureLog: true, VotingPeriod: 10 * time.Second})
	defer ch.Close()
	w := &idWorld{name: c.Name, c: ch, rec: rec, r: r, vals: world.Accts(vals), users: []*chain.Account{u1, u2}, refs: refs, chainIDs: allIDs,
		active: map[string]bool{}, version: map[string]int{}, jobs: map[string]string{},
		owner: map[uint64]string{}, live: map[entry]string{}, dead: map[uint64]int64{}}
	rec.Op(map[string]any{"op": "setup", "chains": refs})
	if !w.block("first block") {
		return
	}
	if err := world.Bootstrap(ch, w.vals, refs); err != nil {
		rec.Inconclusive("bootstrap: " + err.Error())
		return
	}
	w.observe("bootstrap")
	w.gov(&treasurytypes.CommunityFundFeeProposal{Title: "cf", Description: "cf", Fee: "0.01"}, "gov community fee")
	w.gov(&treasurytypes.SecurityFeeProposal{Title: "sf", Description: "sf", Fee: "0.01"}, "gov security fee")
	for _, ref := range refs {
		w.active[ref] = true
		w.activate(ref)
	}
	for _, ref := range refs {
		w.createJob(ref)
	}
	if !w.skipTo(50, "to first snapshot with external accounts") {
		return
	}
	lastKeepAlive := ch.Height
	longSkips := p.LongSkips
	ar := rand.New(rand.NewSource(c.Seed ^ 0x5eeda91)) // own stream for the direct queue-API steps (api.go)

	for step := 0; step < p.Steps && rec.Violations() == 0; step++ {
		w.stepNo = step
		live := w.liveRefs()
		x := r.Intn(100)
		rec.Op(map[string]any{"step": step, "height": ch.Height, "x": x})
		var ref string
		if len(live) > 0 {
			ref = live[r.Intn(len(live))]
		}
		switch {
		case ref == "" || (x < 6 && len(live) < len(refs)):
			// re-add a removed chain
			for _, rr := range refs {
				if !w.active[rr] {
					w.addChain(rr)
					break
				}
			}
		case x < 30:
			w.execJob(ref)
		case x < 48:
			w.estimates(ref)
		case x < 55:
			w.sign(ref)
		case x < 67:
			if r.Intn(2) == 0 {
				// the newest message of the whole chain is attested and leaves its queue, then the
				// next message is created: the freshly freed id must not be handed out again
				if q, ok := w.newestLiveQueue(); ok {
					w.errorEvidence(q, true)
					w.block("after attestation of the newest message")
					if r.Intn(2) == 0 {
						w.execJob(ref)
					} else {
						w.scheduledDirect(ref)
					}
				}
				break
			}
			qs := []string{world.TurnstoneQueue(ref), world.TurnstoneQueue(ref), world.QueueName("validators-balances", ref), world.QueueName("reference-block", ref)}
			w.errorEvidence(qs[r.Intn(len(qs))], false)
		case x < 75:
			w.delegate()
			w.skipTo(50, "to next snapshot")
		case x < 83:
			w.scheduledDirect(ref)
		case x < 87:
			if len(live) > 1 {
				w.removeChain(ref)
			}
		case x < 92 && longSkips > 0:
			longSkips--
			w.skipTo(300, "to balances schedule")
		case x < 96 && longSkips > 0:
			longSkips--
			w.skip(300, "age messages")
			w.skipTo(50, "to prune")
		default:
			w.skip(1+r.Intn(30), "idle")
		}
		if ar.Intn(3) == 0 && rec.Violations() == 0 {
			w.queueAPI(ar)
		}
		if ch.Height-lastKeepAlive > 1200 {
			for _, v := range w.vals {
				ch.QueueTx(v, 0, world.MsgKeepAlive(v, world.PigeonVersion))
			}
			w.block("keep-alive")
			lastKeepAlive = ch.Height
		}
	}
	if p.Long && rec.Violations() == 0 {
		// the evm end-blocker schedules reference-block messages at heights % 10000 == 0
		for ch.Height < 10_001 {
			if ch.Height-lastKeepAlive > 1200 {
				for _, v := range w.vals {
					ch.QueueTx(v, 0, world.MsgKeepAlive(v, world.PigeonVersion))
				}
				lastKeepAlive = ch.Height + 1
			}
			if !w.block("long run to height 10000") {
				break
			}
		}
		rec.Count("long_runs_past_10000", 1)
	}
	fmt.Printf("TIMING blocks=%v observe(+rest)=%v\n", tBlock, tObs)
	rec.Count("blocks", ch.Height)
	rec.Count("ids_high_water_sum", int64(w.hw))
	rec.Sample(map[string]any{"case": c.Name, "chains": refs, "blocks": ch.Height, "highest_id": w.hw, "history_head": tail(w.history, 25)})
	for k, v := range ch.Log.Distinct() {
		if strings.HasPrefix(k, "ERROR") && strings.Contains(k, "queue") {
			rec.Count("log/"+k, int64(v))
		}
	}
	_ = sdkmath.ZeroInt
}
