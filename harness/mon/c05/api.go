package c05

import (
	"math/rand"

	sdk "github.com/cosmos/cosmos-sdk/types"
	"github.com/palomachain/paloma/v2/x/consensus/keeper/consensus"

	"verif/harness/world"
)

// queueAPI drives the consensus keeper's public queue API directly (PutMessageInQueue with
// MsgIDToReplace, DeleteJob) with the id arguments production callers never pass but the API accepts:
// an id that already left the store, an id that lives in the queue of ANOTHER chain, an id that was
// never issued, next to the legitimate "replace a live message of this queue in place" and "remove".
// Every call runs on a cache context that is written back only if the keeper reported success (what
// every caller of the keeper does); the store-scan oracle of observe() then sees what the call left
// behind: a removed id that comes back, an id in two queues, an id above the counter.
func (w *idWorld) queueAPI(ar *rand.Rand) {
	live := w.liveRefs()
	if len(live) == 0 {
		return
	}
	ref := live[ar.Intn(len(live))]
	q := world.TurnstoneQueue(ref)
	msgs := w.queueMsgs(q)
	if len(msgs) == 0 {
		return
	}
	src := msgs[ar.Intn(len(msgs))]
	cm, err := src.ConsensusMsg(w.c.App.AppCodec())
	if err != nil {
		return
	}
	try := func(what string, fn func(ctx sdk.Context) error) bool {
		cctx, write := w.c.Ctx().CacheContext()
		err := fn(cctx)
		if err == nil {
			write()
		}
		w.rec.Eval(1)
		return err == nil
	}
	w.apiCalls++
	switch w.apiCalls % 5 { // kinds are cycled so that every kind is exercised in every history
	case 0: // legitimate: replace a live message of this queue in place (content of a sibling message)
		id := msgs[ar.Intn(len(msgs))].GetId()
		w.expectReplace = &entry{q, id}
		ok := try("replace-live", func(ctx sdk.Context) error {
			_, err := w.c.App.ConsensusKeeper.PutMessageInQueue(ctx, q, cm, &consensus.PutOptions{MsgIDToReplace: id, RequireSignatures: true})
			return err
		})
		w.note("api replace live #%d in %s ok=%v", id, q, ok)
		w.rec.Count("api/replace_live", 1)
	case 1: // remove a live message through the API, then ask to replace it
		id := msgs[ar.Intn(len(msgs))].GetId()
		ok := try("delete", func(ctx sdk.Context) error { return w.c.App.ConsensusKeeper.DeleteJob(ctx, q, id) })
		w.note("api delete #%d from %s ok=%v", id, q, ok)
		w.rec.Count("api/delete", 1)
		w.observe("api delete " + q)
		ok = try("replace-removed", func(ctx sdk.Context) error {
			_, err := w.c.App.ConsensusKeeper.PutMessageInQueue(ctx, q, cm, &consensus.PutOptions{MsgIDToReplace: id, RequireSignatures: true})
			return err
		})
		w.note("api replace just-removed #%d in %s ok=%v", id, q, ok)
		w.rec.Count("api/replace_removed", 1)
		if ok {
			w.rec.Count("api/replace_removed_accepted", 1)
		}
	case 2: // an id that left the store some time ago (attested, pruned, superseded, removed chain)
		if len(w.dead) == 0 {
			return
		}
		var ids []uint64
		for id := range w.dead {
			ids = append(ids, id)
		}
		sortU64(ids)
		id := ids[ar.Intn(len(ids))]
		ok := try("replace-dead", func(ctx sdk.Context) error {
			_, err := w.c.App.ConsensusKeeper.PutMessageInQueue(ctx, q, cm, &consensus.PutOptions{MsgIDToReplace: id, RequireSignatures: true})
			return err
		})
		w.note("api replace long-gone #%d in %s ok=%v", id, q, ok)
		w.rec.Count("api/replace_removed", 1)
		if ok {
			w.rec.Count("api/replace_removed_accepted", 1)
		}
	case 3: // an id that lives in another queue
		var other []entry
		for e := range w.live {
			if e.Queue != q {
				other = append(other, e)
			}
		}
		if len(other) == 0 {
			return
		}
		sortEntries(other)
		e := other[ar.Intn(len(other))]
		ok := try("replace-foreign", func(ctx sdk.Context) error {
			_, err := w.c.App.ConsensusKeeper.PutMessageInQueue(ctx, q, cm, &consensus.PutOptions{MsgIDToReplace: e.ID, RequireSignatures: true})
			return err
		})
		w.note("api replace #%d (lives in %s) in %s ok=%v", e.ID, e.Queue, q, ok)
		w.rec.Count("api/replace_foreign", 1)
	case 4: // an id that was never issued
		id := w.hw + 1 + uint64(ar.Intn(50))
		ok := try("replace-future", func(ctx sdk.Context) error {
			_, err := w.c.App.ConsensusKeeper.PutMessageInQueue(ctx, q, cm, &consensus.PutOptions{MsgIDToReplace: id, RequireSignatures: true})
			return err
		})
		w.note("api replace never-issued #%d in %s ok=%v", id, q, ok)
		w.rec.Count("api/replace_future", 1)
		if ok {
			// the id is now in the store above the counter: the next regular put must still not collide
			w.observe("api replace never-issued")
			w.scheduledDirect(ref)
			return
		}
	}
	w.observe("api call on " + q)
	w.expectReplace = nil
}

func sortU64(s []uint64) {
	for i := 1; i < len(s); i++ {
		for j := i; j > 0 && s[j] < s[j-1]; j-- {
			s[j], s[j-1] = s[j-1], s[j]
		}
	}
}

func sortEntries(s []entry) {
	for i := 1; i < len(s); i++ {
		for j := i; j > 0 && (s[j].ID < s[j-1].ID || (s[j].ID == s[j-1].ID && s[j].Queue < s[j-1].Queue)); j-- {
			s[j], s[j-1] = s[j-1], s[j]
		}
	}
}
