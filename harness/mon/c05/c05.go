// Package c05: what validators sign binds the whole delivered call; message ids are never reused.
//
// Part 1 (cases mm-*): metamorphic oracle over the REAL signing-bytes code (x/evm/types
// Keccak256WithSignedMessage via QueuedSignedMessage.GetBytesToSign, x/skyway/types GetCheckpoint)
// against an independent model of the delivered call (public compass ABI), calibrated with the
// code's own VerifyAgainstTX.
// Part 2 (cases ids-*): on the REAL chain (chain.New) every id handed out by the consensus queues
// is observed (put log lines + raw store scans after every block) and checked to be unique across
// all queues of all chains and strictly increasing for the lifetime of the chain.
// Part 3 (cases dep-*): on the REAL chain the bytes to sign of bridge batches, as handed out at
// batch build and after every estimate election, are compared with an independent checkpoint
// encoder for the deployment id the chain is registered with, along registration histories (late
// activation, compass upgrade, chain removed and re-added).
package c05

import (
	"fmt"

	"verif/harness/fw"
)

type modeOnly struct {
	Mode string `json:"mode"`
}

func run(c fw.Case, tier string, rec *fw.Recorder) {
	var m modeOnly
	c.Decode(&m)
	switch m.Mode {
	case "mm":
		runMM(c, tier, rec)
	case "ids":
		runIDs(c, tier, rec)
	case "dep":
		runDep(c, tier, rec)
	default:
		rec.Inconclusive("unknown case mode " + m.Mode)
	}
}

func cases(tier string, seed int64) []fw.Case {
	var cs []fw.Case
	nmm, bases, multi := 16, 3, 60
	nids := 6
	if tier == "thorough" {
		nmm, bases, multi = 40, 6, 120
		nids = 16
	}
	for i := 0; i < nmm; i++ {
		cs = append(cs, fw.MkCase(fmt.Sprintf("mm-%03d", i), seed*1000003+int64(i), mmParams{Mode: "mm", Bases: bases, Multi: multi}))
	}
	cs = append(cs, idCases(tier, seed, nids)...)
	cs = append(cs, depCases(tier, seed)...)
	return cs
}

func init() {
	fw.Register(&fw.Prop{
		ID:    "C05",
		Level: "exploration",
		Rule: "part 1: seeded base items of the five turnstone action types and skyway batches (1-100 txs); for each base item every field reachable by reflection x every alternative value (>= 8 per scalar field, hostile ones included) as single-field mutants, plus 2-4-field mutants; " +
			"a pair is non-trivial when the independently encoded delivered call (public compass ABI + deployment id where the contract's scheme has it) differs; distinct_nontrivial = distinct (kind, delivered(base), delivered(mutant)) triples; " +
			"evaluations = non-trivial pairs whose signing bytes were compared + code-classified (VerifyAgainstTX) pairs + global collision look-ups + id observations checked against the high-water mark. " +
			"part 2: seeded ABCI histories of the real app over 2-3 EVM chains (jobs, snapshot changes, gas estimates with fee attachment, evidence/removal, pruning, scheduled balance/reference-block messages, chain removal and re-addition through governance), interleaved with direct calls of the consensus keeper's public queue API (PutMessageInQueue with MsgIDToReplace = a live id of the queue / a just-removed id / a long-gone id / an id living in another chain's queue / a never-issued id; DeleteJob), each on a cache context written back only on success. " +
			"part 3: one bridge world (2 chains x 2 tokens) per registration history of the target chain (activated once / late activation of a not-newer compass / compass upgrade / upgrade then late activation of the old version / chain removed and re-added by governance / ... and re-activated): batches are built by the end-blocker, estimates sent by > 2/3 are elected before and after the history step (real UpdateBatchGasEstimate), further batches built afterwards; " +
			"every batch that was issued or re-issued since the last block is read as handed out (BatchRequestByNonce, OutgoingTxBatches) and its bytes to sign compared with the monitor's own checkpoint encoder for the deployment id in the evm chain info, and with the checkpoints for every other id of the case",
		Assumptions: []string{
			"keccak256 collision resistance; pairs are sampled, not exhaustive",
			"values that are equal as delivered are not changes: address spellings normalised by HexToAddress, gas estimate 0 is delivered as 300000, missing fees are delivered as 100000 each, a deployment id is the bytes32 the contract stores",
			"UploadSmartContract (plain deployment, nothing verifies signatures remotely) is checked for bytecode and id only",
			"which compass functions include compass_id in the signed hash is taken from the public Compass contract (table in encode.go)",
			"ids created and removed inside one block without a put log line are not observable",
			"part 3 judges the bytes to sign of a batch at the moments they are issued (batch build) or re-issued (estimate election) against the deployment id registered in the evm chain info at that moment; bytes issued earlier and left untouched by a later registration change are not judged; a chain without registration binds nothing",
		},
		Exhaustive:  func(string) bool { return false },
		Cases:       cases,
		Run:         run,
		MinCounters: []string{"pairs_delivered_changed", "calibration_ok", "pairs/Batch", "ids_issued", "ids_replaced_in_place", "ids_removed", "api/replace_live", "api/replace_removed", "api/replace_foreign", "api/replace_future",
			"dep/issues_judged/batch-build", "dep/issues_judged/estimate-election", "dep/issues_judged_after_history", "dep/issues_judged_registered_id_not_last_activated/estimate-election"},
		TimeoutS:    2400,
	})
}
