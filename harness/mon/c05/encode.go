package c05

// Independent model of "what the remote bridge contract is handed" (the delivered view D).
//
// Nothing here calls into paloma's hashing/encoding code (turnstone_abi.go, batch.go,
// eth_txable.go). Call data is built from the PUBLIC compass ABI (fixtures/compass-abi.json) with
// go-ethereum's abi package, the way pigeon builds it. The only paloma types touched are the
// generated protobuf structs (plain data).
//
// D(item) = call data of the compass function the item is delivered with (with a FIXED consensus
// argument: the consensus = current valset + signatures is not part of the item) followed by the
// deployment id (compass_id, bytes32) for the functions whose signed-hash scheme in the public
// Compass contract includes it.

import (
	"bytes"
	"errors"
	"fmt"
	"math/big"
	"strings"
	"sync"

	"github.com/ethereum/go-ethereum/accounts/abi"
	"github.com/ethereum/go-ethereum/common"

	evmtypes "github.com/palomachain/paloma/v2/x/evm/types"
	skywaytypes "github.com/palomachain/paloma/v2/x/skyway/types"

	"verif/harness/chain"
)

// Go mirror types of the ABI tuples (field order = tuple order; names irrelevant for packing
// through reflection as long as they match the ABI component names case-insensitively).
type dValset struct {
	Validators []common.Address
	Powers     []*big.Int
	ValsetId   *big.Int
}

type dSig struct {
	V *big.Int
	R *big.Int
	S *big.Int
}

type dConsensus struct {
	Valset     dValset
	Signatures []dSig
}

type dLogicArgs struct {
	LogicContractAddress common.Address
	Payload              []byte
}

type dFeeArgs struct {
	RelayerFee            *big.Int
	CommunityFee          *big.Int
	SecurityFee           *big.Int
	FeePayerPalomaAddress [32]byte
}

type dBatchArgs struct {
	Receiver []common.Address
	Amount   []*big.Int
}

var (
	abiOnce    sync.Once
	compassABI abi.ABI
	abiJSON    string
)

func cABI() abi.ABI {
	abiOnce.Do(func() {
		abiJSON = chain.CompassABI()
		a, err := abi.JSON(strings.NewReader(abiJSON))
		if err != nil {
			panic(err)
		}
		compassABI = a
	})
	return compassABI
}

// schemes of the public Compass contract: does the hash the validators' signatures are checked
// against include compass_id?
//
//	update_valset:        checkpoint = keccak(checkpoint(validators, powers, valset_id, compass_id))  -> yes
//	submit_logic_call:    keccak(logic_call(args, fee_args, message_id, compass_id, deadline, relayer)) -> yes
//	deploy_contract:      keccak(deploy_contract(deployer, bytecode, fee_args, message_id, compass_id, deadline, relayer)) -> yes
//	submit_batch:         keccak(batch_call(token, args, batch_id, compass_id, deadline, relayer, gas_estimate)) -> yes
//	compass_update_batch: keccak(compass_update_batch(args[], deadline, relayer, gas_estimate)) -> no
//	plain contract creation (UploadSmartContract): no signature check remotely -> no
var schemeHasDeploymentID = map[string]bool{
	"UpdateValset":            true,
	"SubmitLogicCall":         true,
	"UploadUserSmartContract": true,
	"Batch":                   true,
	"CompassHandover":         false,
	"UploadSmartContract":     false,
}

const defaultGas = 300_000 // what pigeon delivers when no estimate was elected
const defaultFee = 100_000 // what pigeon delivers when the message carries no fees

// fixed consensus argument (a one-validator valset and one signature)
var (
	fixValsetAddr = common.HexToAddress("0x00000000000000000000000000000000000a11ce")
	fixSig        = func() []byte {
		s := make([]byte, 65)
		for i := range s {
			s[i] = byte(3*i + 1)
		}
		s[64] = 1
		return s
	}()
)

func fixedConsensus() dConsensus {
	return dConsensus{
		Valset: dValset{Validators: []common.Address{fixValsetAddr}, Powers: []*big.Int{big.NewInt(1 << 32)}, ValsetId: big.NewInt(77)},
		Signatures: []dSig{{
			V: big.NewInt(int64(fixSig[64]) + 27),
			R: new(big.Int).SetBytes(fixSig[:32]),
			S: new(big.Int).SetBytes(fixSig[32:64]),
		}},
	}
}

func u(v uint64) *big.Int  { return new(big.Int).SetUint64(v) }
func si(v int64) *big.Int  { return big.NewInt(v) }
func asI64(v uint64) *big.Int { return big.NewInt(int64(v)) } // pigeon casts ids/powers through int64

func pad32Left(b []byte) ([32]byte, error) {
	var out [32]byte
	if len(b) > 32 {
		return out, errors.New("fee payer longer than 32 bytes cannot be delivered")
	}
	copy(out[32-len(b):], b)
	return out, nil
}

func deploymentID32(id string) [32]byte {
	var out [32]byte
	copy(out[:], id) // the contract's compass_id is a bytes32; longer strings cannot exist remotely
	return out
}

func normGas(g uint64) uint64 {
	if g == 0 {
		return defaultGas
	}
	return g
}

func feeArgs(f *evmtypes.Fees, sender []byte, normalise bool) (dFeeArgs, error) {
	fp, err := pad32Left(sender)
	if err != nil {
		return dFeeArgs{}, err
	}
	if f == nil {
		if !normalise {
			return dFeeArgs{}, errors.New("no fees")
		}
		return dFeeArgs{u(defaultFee), u(defaultFee), u(defaultFee), fp}, nil
	}
	return dFeeArgs{u(f.RelayerFee), u(f.CommunityFee), u(f.SecurityFee), fp}, nil
}

func toValset(v *evmtypes.Valset) dValset {
	out := dValset{Validators: []common.Address{}, Powers: []*big.Int{}, ValsetId: big.NewInt(0)}
	if v == nil {
		return out
	}
	for _, s := range v.Validators {
		out.Validators = append(out.Validators, common.HexToAddress(s))
	}
	for _, p := range v.Powers {
		out.Powers = append(out.Powers, asI64(p))
	}
	out.ValsetId = asI64(v.ValsetID)
	return out
}

// actionName returns the action type name of a message ("" if none).
func actionName(m *evmtypes.Message) string {
	switch m.GetAction().(type) {
	case *evmtypes.Message_SubmitLogicCall:
		return "SubmitLogicCall"
	case *evmtypes.Message_UpdateValset:
		return "UpdateValset"
	case *evmtypes.Message_UploadSmartContract:
		return "UploadSmartContract"
	case *evmtypes.Message_UploadUserSmartContract:
		return "UploadUserSmartContract"
	case *evmtypes.Message_CompassHandover:
		return "CompassHandover"
	}
	return ""
}

// callData builds the call data for a turnstone message. normalise=true applies the delivery
// defaults (gas 0 -> 300000, no fees -> 100000 each), normalise=false encodes the raw values
// (used for calibration against the code's VerifyAgainstTX, which compares raw values).
func callData(m *evmtypes.Message, qid, gas uint64, normalise bool) ([]byte, error) {
	a := cABI()
	if normalise {
		gas = normGas(gas)
	}
	relayer := common.HexToAddress(m.AssigneeRemoteAddress)
	switch act := m.GetAction().(type) {
	case *evmtypes.Message_SubmitLogicCall:
		x := act.SubmitLogicCall
		if x == nil {
			return nil, errors.New("nil action")
		}
		fa, err := feeArgs(x.Fees, x.SenderAddress, normalise)
		if err != nil {
			return nil, err
		}
		return a.Pack("submit_logic_call", fixedConsensus(),
			dLogicArgs{common.HexToAddress(x.HexContractAddress), nz(x.Payload)},
			fa, asI64(qid), si(x.Deadline), relayer)
	case *evmtypes.Message_UploadUserSmartContract:
		x := act.UploadUserSmartContract
		if x == nil {
			return nil, errors.New("nil action")
		}
		fa, err := feeArgs(x.Fees, x.SenderAddress, normalise)
		if err != nil {
			return nil, err
		}
		return a.Pack("deploy_contract", fixedConsensus(),
			common.HexToAddress(x.DeployerAddress), nz(x.Bytecode), fa, asI64(qid), si(x.Deadline), relayer)
	case *evmtypes.Message_UpdateValset:
		x := act.UpdateValset
		if x == nil {
			return nil, errors.New("nil action")
		}
		return a.Pack("update_valset", fixedConsensus(), toValset(x.Valset), relayer, u(gas))
	case *evmtypes.Message_CompassHandover:
		x := act.CompassHandover
		if x == nil {
			return nil, errors.New("nil action")
		}
		args := []dLogicArgs{}
		for _, f := range x.ForwardCallArgs {
			args = append(args, dLogicArgs{common.HexToAddress(f.HexContractAddress), nz(f.Payload)})
		}
		return a.Pack("compass_update_batch", fixedConsensus(), args, si(x.Deadline), u(gas), relayer)
	case *evmtypes.Message_UploadSmartContract:
		x := act.UploadSmartContract
		if x == nil {
			return nil, errors.New("nil action")
		}
		// plain deployment: per the design (L) only bytecode and id are in scope. The id is not
		// call data; it is appended as an 8 byte tag so that D distinguishes it.
		out := append([]byte("deploy:"), x.Bytecode...)
		var idb [8]byte
		for i := 0; i < 8; i++ {
			idb[i] = byte(qid >> (8 * (7 - i)))
		}
		return append(out, idb[:]...), nil
	}
	return nil, errors.New("no action")
}

func nz(b []byte) []byte {
	if b == nil {
		return []byte{}
	}
	return b
}

// deliveredTurnstone = D(X) for a turnstone item.
func deliveredTurnstone(m *evmtypes.Message, qid, gas uint64) ([]byte, error) {
	cd, err := callData(m, qid, gas, true)
	if err != nil {
		return nil, err
	}
	if schemeHasDeploymentID[actionName(m)] {
		id := deploymentID32(m.TurnstoneID)
		cd = append(cd, id[:]...)
	}
	return cd, nil
}

// deliveredBatch = D(X) for a skyway batch: submit_batch call data + deployment id.
func deliveredBatch(b *skywaytypes.OutgoingTxBatch, turnstoneID string) ([]byte, error) {
	a := cABI()
	if !common.IsHexAddress(b.TokenContract) {
		return nil, fmt.Errorf("token contract %q is not an address", b.TokenContract)
	}
	args := dBatchArgs{Receiver: []common.Address{}, Amount: []*big.Int{}}
	for i, t := range b.Transactions {
		if !common.IsHexAddress(t.DestAddress) {
			return nil, fmt.Errorf("tx %d: destination %q is not an address", i, t.DestAddress)
		}
		if t.Erc20Token.Amount.IsNil() {
			return nil, fmt.Errorf("tx %d: nil amount", i)
		}
		args.Receiver = append(args.Receiver, common.HexToAddress(t.DestAddress))
		args.Amount = append(args.Amount, t.Erc20Token.Amount.BigInt())
	}
	cd, err := a.Pack("submit_batch", fixedConsensus(), common.HexToAddress(b.TokenContract), args,
		asI64(b.BatchNonce), asI64(b.BatchTimeout), common.BytesToAddress(b.AssigneeRemoteAddress), u(normGas(b.GasEstimate)))
	if err != nil {
		return nil, err
	}
	id := deploymentID32(turnstoneID)
	return append(cd, id[:]...), nil
}

func sameBytes(a, b []byte) bool { return bytes.Equal(a, b) }
