package c05

// Reference encoder of the bytes validators sign for a bridge batch, written against the PUBLIC
// Compass contract interface:
//
//	keccak256( selector("batch_call(address,(address[],uint256[]),uint256,bytes32,uint256,address,uint256)")
//	           ++ abi.encode(token, (receivers, amounts), batch_id, compass_id, deadline, relayer, gas_estimate) )
//
// Hand-rolled head/tail ABI encoding over 32-byte words; shares no code with
// x/skyway/types.GetCheckpoint (no go-ethereum abi package, no paloma helper). The values are the
// delivered ones (same normalisation as deliveredBatch in encode.go: an estimate of 0 is delivered
// as 300000, ids/deadlines go through int64, the deployment id is the bytes32 the contract stores).

import (
	"encoding/hex"
	"math/big"
	"strings"

	ethcrypto "github.com/ethereum/go-ethereum/crypto"

	skywaytypes "github.com/palomachain/paloma/v2/x/skyway/types"
)

const batchCallSignature = "batch_call(address,(address[],uint256[]),uint256,bytes32,uint256,address,uint256)"

func abiWord(b []byte) []byte {
	out := make([]byte, 32)
	if len(b) > 32 {
		b = b[len(b)-32:]
	}
	copy(out[32-len(b):], b)
	return out
}

func abiUint(v uint64) []byte { return abiWord(new(big.Int).SetUint64(v).Bytes()) }

func addr20(s string) ([]byte, bool) {
	s = strings.TrimSpace(s)
	if len(s) != 42 || !(strings.HasPrefix(s, "0x") || strings.HasPrefix(s, "0X")) {
		return nil, false
	}
	b, err := hex.DecodeString(s[2:])
	if err != nil || len(b) != 20 {
		return nil, false
	}
	return b, true
}

// referenceCheckpoint returns the bytes a validator has to sign so that the Compass deployment
// `deploymentID` accepts the batch as it is handed out. ok=false: the handed-out batch does not
// describe a deliverable batch (nothing to compare).
func referenceCheckpoint(b *skywaytypes.OutgoingTxBatch, deploymentID string) ([]byte, bool) {
	token, ok := addr20(b.TokenContract)
	if !ok {
		return nil, false
	}
	if b.BatchNonce >= 1<<63 || b.BatchTimeout >= 1<<63 || len(b.AssigneeRemoteAddress) > 20 {
		return nil, false
	}
	n := len(b.Transactions)
	var receivers, amounts []byte
	for _, tx := range b.Transactions {
		d, ok := addr20(tx.DestAddress)
		if !ok {
			return nil, false
		}
		a := tx.Erc20Token.Amount
		if a.IsNil() || a.IsNegative() || a.BigInt().BitLen() > 256 {
			return nil, false
		}
		receivers = append(receivers, abiWord(d)...)
		amounts = append(amounts, abiWord(a.BigInt().Bytes())...)
	}
	id := deploymentID32(deploymentID)

	enc := append([]byte{}, ethcrypto.Keccak256([]byte(batchCallSignature))[:4]...)
	// head: 7 slots, the tuple is dynamic -> offset
	enc = append(enc, abiWord(token)...)
	enc = append(enc, abiUint(7*32)...)
	enc = append(enc, abiUint(b.BatchNonce)...)
	enc = append(enc, id[:]...)
	enc = append(enc, abiUint(b.BatchTimeout)...)
	enc = append(enc, abiWord(b.AssigneeRemoteAddress)...)
	enc = append(enc, abiUint(normGas(b.GasEstimate))...)
	// tail: (address[] receiver, uint256[] amount)
	enc = append(enc, abiUint(2*32)...)
	enc = append(enc, abiUint(uint64(2*32+32+32*n))...)
	enc = append(enc, abiUint(uint64(n))...)
	enc = append(enc, receivers...)
	enc = append(enc, abiUint(uint64(n))...)
	enc = append(enc, amounts...)
	return ethcrypto.Keccak256(enc), true
}
