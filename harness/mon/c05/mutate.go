package c05

// Reflection-based field mutation: walks every field of an item (protobuf Go structs, oneofs,
// nullable sub-messages, repeated fields) and produces alternative values per leaf. A newly added
// field or action type is picked up without touching this file.

import (
	"fmt"
	"math"
	"math/big"
	"math/rand"
	"reflect"
	"strings"

	sdkmath "cosmossdk.io/math"
)

type leaf struct {
	Path string        // stable name, repeated elements written as []
	V    reflect.Value // settable
}

var mathIntType = reflect.TypeOf(sdkmath.Int{})

// leaves enumerates the mutable leaves under v (v must be addressable/settable).
func leaves(path string, v reflect.Value, out *[]leaf) {
	if v.Type() == mathIntType {
		*out = append(*out, leaf{path, v})
		return
	}
	switch v.Kind() {
	case reflect.String, reflect.Int64, reflect.Uint64, reflect.Uint32, reflect.Int32, reflect.Bool:
		*out = append(*out, leaf{path, v})
	case reflect.Slice:
		et := v.Type().Elem()
		switch {
		case et.Kind() == reflect.Uint8: // bytes
			*out = append(*out, leaf{path, v})
		case et.Kind() == reflect.String || et.Kind() == reflect.Uint64:
			*out = append(*out, leaf{path, v})
		default:
			// repeated message: list-level leaf + descend into first and last element
			*out = append(*out, leaf{path + "[#]", v})
			n := v.Len()
			if n > 0 {
				leaves(path+"[]", v.Index(0), out)
			}
			if n > 1 {
				leaves(path+"[]", v.Index(n-1), out)
			}
		}
	case reflect.Ptr:
		if v.Type().Elem().Kind() == reflect.Struct {
			*out = append(*out, leaf{path + "?", v}) // presence
			if !v.IsNil() {
				leaves(path, v.Elem(), out)
			}
		}
	case reflect.Interface:
		if !v.IsNil() {
			// oneof wrapper: *Message_Xxx{Xxx *Xxx}; interface values are not settable inside,
			// but the pointer they hold is.
			inner := v.Elem()
			if inner.Kind() == reflect.Ptr && !inner.IsNil() {
				leaves(path, inner.Elem(), out)
			}
		}
	case reflect.Struct:
		for i := 0; i < v.NumField(); i++ {
			f := v.Type().Field(i)
			if f.PkgPath != "" || strings.HasPrefix(f.Name, "XXX_") {
				continue
			}
			p := f.Name
			if path != "" {
				p = path + "." + f.Name
			}
			leaves(p, v.Field(i), out)
		}
	}
}

var (
	addrPool = []string{
		"0x5A0b54D5dc17e0AadC383d2db43B0a0D3E029c4c",
		"0x1111111111111111111111111111111111111111",
		"0x00000000000000000000000000000000000000fe",
		"0xFFfFfFffFFfffFFfFFfFFFFFffFFFffffFfFFFfF",
		"0x2c2C2c2c2C2c2C2c2C2c2c2C2C2C2c2C2C2c2c2c",
	}
)

func looksLikeAddress(s string) bool {
	if len(s) != 42 || !strings.HasPrefix(s, "0x") {
		return false
	}
	for _, c := range s[2:] {
		if !strings.ContainsRune("0123456789abcdefABCDEF", c) {
			return false
		}
	}
	return true
}

func flipNibble(s string, pos int) string {
	b := []byte(s)
	i := 2 + pos%40
	if b[i] == '7' {
		b[i] = '8'
	} else {
		b[i] = '7'
	}
	return string(b)
}

func stringAlts(cur string, r *rand.Rand) []string {
	var a []string
	if looksLikeAddress(cur) {
		a = append(a,
			addrPool[r.Intn(len(addrPool))],
			strings.ToLower(cur),                // same address, other spelling
			"0x"+strings.ToUpper(cur[2:]),       // same address, other spelling
			cur[2:],                             // same address without 0x
			flipNibble(cur, r.Intn(40)),         // one nibble changed
			flipNibble(cur, 39),                 // last nibble
			flipNibble(cur, 0),                  // first nibble
			"",                                  // empty (-> zero address)
			"0x",                                //
			"0x"+strings.Repeat("ab", 12)+cur[2:], // 32 byte hex: truncated to the low 20 bytes
			"not-an-address",
			"0x0000000000000000000000000000000000000000",
		)
		return a
	}
	a = append(a, cur+"x", "x"+cur, "", cur+"\x00", strings.ToUpper(cur), "id-"+fmt.Sprint(r.Intn(1000)))
	if len(cur) > 0 {
		a = append(a, cur[:len(cur)-1], cur[1:])
	}
	// longer than a bytes32: the two variants differ only after byte 32 / within the first 32
	long := cur + strings.Repeat("z", 40)
	a = append(a, long, long+"y", strings.Repeat("q", 32), strings.Repeat("q", 31)+"r", strings.Repeat("q", 32)+"tail")
	return a
}

func bytesAlts(cur []byte, r *rand.Rand) [][]byte {
	cp := func(b []byte) []byte { return append([]byte{}, b...) }
	var a [][]byte
	if len(cur) > 0 {
		x := cp(cur)
		x[r.Intn(len(x))] ^= 1 << uint(r.Intn(8))
		a = append(a, x)
		y := cp(cur)
		y[len(y)-1] ^= 0x80
		a = append(a, y)
		z := cp(cur)
		z[0] ^= 0x01
		a = append(a, z)
		a = append(a, cp(cur[:len(cur)-1]), cp(cur[1:]))
	}
	a = append(a, append(cp(cur), 0), append([]byte{0}, cur...), []byte{}, []byte{0}, []byte{1})
	rb := make([]byte, 1+r.Intn(64))
	r.Read(rb)
	a = append(a, rb)
	rb20 := make([]byte, 20)
	r.Read(rb20)
	a = append(a, rb20)
	rb32 := make([]byte, 32)
	r.Read(rb32)
	a = append(a, rb32)
	big := make([]byte, 1024)
	r.Read(big)
	a = append(a, big)
	return a
}

func uint64Alts(cur uint64, r *rand.Rand) []uint64 {
	return []uint64{cur + 1, cur - 1, 0, 1, 2, defaultGas, defaultFee, 1 << 32, 1<<32 + 1, 1 << 63, 1<<63 + 1, math.MaxUint64,
		math.MaxUint64 - 1, uint64(r.Int63()), uint64(r.Intn(1000)), cur ^ (1 << uint(r.Intn(64)))}
}

func int64Alts(cur int64, r *rand.Rand) []int64 {
	return []int64{cur + 1, cur - 1, 0, 1, -1, -cur, math.MaxInt64, math.MinInt64, 1 << 32, r.Int63(), -r.Int63(), int64(r.Intn(100000)),
		cur ^ (1 << uint(r.Intn(63)))}
}

func bigAlts(cur sdkmath.Int, r *rand.Rand) []sdkmath.Int {
	one := sdkmath.OneInt()
	p := func(e uint) sdkmath.Int { return sdkmath.NewIntFromBigInt(new(big.Int).Lsh(big.NewInt(1), e)) }
	out := []sdkmath.Int{sdkmath.ZeroInt(), one, sdkmath.NewInt(2), p(64), p(64).Sub(one), p(128), p(255), p(255).Add(one),
		p(255).Sub(one).Add(p(255)) /* 2^256-1 */, sdkmath.NewInt(r.Int63()), sdkmath.NewInt(-1), sdkmath.NewInt(-r.Int63())}
	if !cur.IsNil() {
		out = append(out, cur.Add(one), cur.Sub(one), cur.MulRaw(2))
	}
	return out
}

// alts returns alternative values (as reflect.Values assignable to l.V) different from the
// current one.
func alts(l leaf, r *rand.Rand) []reflect.Value {
	var out []reflect.Value
	v := l.V
	add := func(x any) {
		nv := reflect.ValueOf(x)
		if nv.Type() != v.Type() {
			nv = nv.Convert(v.Type())
		}
		if reflect.DeepEqual(nv.Interface(), v.Interface()) {
			return
		}
		out = append(out, nv)
	}
	if v.Type() == mathIntType {
		cur := v.Interface().(sdkmath.Int)
		for _, a := range bigAlts(cur, r) {
			if !cur.IsNil() && a.Equal(cur) {
				continue
			}
			out = append(out, reflect.ValueOf(a))
		}
		return out
	}
	switch v.Kind() {
	case reflect.String:
		for _, s := range stringAlts(v.String(), r) {
			add(s)
		}
	case reflect.Uint64:
		for _, x := range uint64Alts(v.Uint(), r) {
			add(x)
		}
	case reflect.Uint32:
		for _, x := range []uint32{uint32(v.Uint()) + 1, 0, 1, math.MaxUint32, uint32(r.Intn(100))} {
			add(x)
		}
	case reflect.Int32:
		for _, x := range []int32{int32(v.Int()) + 1, 0, -1, math.MaxInt32} {
			add(x)
		}
	case reflect.Int64:
		for _, x := range int64Alts(v.Int(), r) {
			add(x)
		}
	case reflect.Bool:
		add(!v.Bool())
	case reflect.Ptr:
		if v.IsNil() {
			out = append(out, reflect.New(v.Type().Elem()))
		} else {
			out = append(out, reflect.Zero(v.Type()))
		}
	case reflect.Slice:
		et := v.Type().Elem()
		n := v.Len()
		cpy := func() reflect.Value {
			c := reflect.MakeSlice(v.Type(), n, n+1)
			reflect.Copy(c, v)
			return c
		}
		switch {
		case et.Kind() == reflect.Uint8:
			for _, b := range bytesAlts(v.Bytes(), r) {
				add(b)
			}
		default:
			// list-level alternatives (for []string, []uint64 and repeated messages)
			if n > 0 {
				add(v.Slice(0, n-1).Interface())              // drop last
				add(v.Slice(1, n).Interface())                // drop first
				add(reflect.Append(cpy(), v.Index(n-1)).Interface()) // duplicate last
				add(reflect.Append(cpy(), v.Index(0)).Interface())   // append first
				add(reflect.MakeSlice(v.Type(), 0, 0).Interface())   // empty
			}
			add(reflect.Append(cpy(), reflect.Zero(et)).Interface()) // append zero element
			if n > 1 {
				c := cpy()
				a0, a1 := reflect.ValueOf(c.Index(0).Interface()), reflect.ValueOf(c.Index(n-1).Interface())
				c.Index(0).Set(a1)
				c.Index(n - 1).Set(a0)
				add(c.Interface()) // swap first and last
				i := r.Intn(n - 1)
				c2 := cpy()
				b0, b1 := reflect.ValueOf(c2.Index(i).Interface()), reflect.ValueOf(c2.Index(i+1).Interface())
				c2.Index(i).Set(b1)
				c2.Index(i + 1).Set(b0)
				add(c2.Interface()) // swap neighbours
			}
			// element-level alternatives for scalar lists
			if n > 0 && et.Kind() == reflect.String {
				for _, idx := range []int{0, n - 1, r.Intn(n)} {
					for _, s := range stringAlts(v.Index(idx).String(), r) {
						c := cpy()
						c.Index(idx).SetString(s)
						add(c.Interface())
					}
				}
			}
			if n > 0 && et.Kind() == reflect.Uint64 {
				for _, idx := range []int{0, n - 1, r.Intn(n)} {
					for _, x := range uint64Alts(v.Index(idx).Uint(), r) {
						c := cpy()
						c.Index(idx).SetUint(x)
						add(c.Interface())
					}
				}
				if n > 1 {
					// move one unit of power from one validator to another (sum preserved)
					c := cpy()
					c.Index(0).SetUint(v.Index(0).Uint() + 1)
					c.Index(n - 1).SetUint(v.Index(n-1).Uint() - 1)
					add(c.Interface())
				}
			}
		}
	}
	return out
}
