package c05

// Seeded generators of base items (turnstone messages of the five action types, skyway batches).

import (
	"fmt"
	"math/rand"

	sdkmath "cosmossdk.io/math"
	"github.com/cosmos/cosmos-sdk/types/bech32"
	"github.com/ethereum/go-ethereum/common"

	evmtypes "github.com/palomachain/paloma/v2/x/evm/types"
	skywaytypes "github.com/palomachain/paloma/v2/x/skyway/types"
)

var kinds = []string{"SubmitLogicCall", "UpdateValset", "UploadSmartContract", "UploadUserSmartContract", "CompassHandover", "Batch"}

func rBytes(r *rand.Rand, n int) []byte {
	b := make([]byte, n)
	r.Read(b)
	return b
}

func rAddr(r *rand.Rand) string {
	// EIP-55 spelling, as pigeon/users write them
	return common.BytesToAddress(rBytes(r, 20)).Hex()
}

func rBech(r *rand.Rand, hrp string) string {
	s, err := bech32.ConvertAndEncode(hrp, rBytes(r, 20))
	if err != nil {
		panic(err)
	}
	return s
}

func rTurnstoneID(r *rand.Rand) string {
	n := []int{6, 16, 31, 32, 32, 20}[r.Intn(6)]
	const al = "abcdefghijklmnopqrstuvwxyz0123456789-_"
	b := make([]byte, n)
	for i := range b {
		b[i] = al[r.Intn(len(al))]
	}
	return string(b)
}

func rPayloadLen(r *rand.Rand) int {
	return []int{0, 1, 4, 31, 32, 33, 36, 68, 100, 300}[r.Intn(10)]
}

func rGas(r *rand.Rand) uint64 {
	switch r.Intn(6) {
	case 0:
		return 0
	case 1:
		return defaultGas
	default:
		return uint64(21000 + r.Intn(5_000_000))
	}
}

func rFees(r *rand.Rand) *evmtypes.Fees {
	switch r.Intn(8) {
	case 0:
		return nil
	case 1:
		return &evmtypes.Fees{RelayerFee: defaultFee, CommunityFee: defaultFee, SecurityFee: defaultFee}
	case 2:
		return &evmtypes.Fees{}
	}
	return &evmtypes.Fees{RelayerFee: uint64(r.Intn(10_000_000)), CommunityFee: uint64(r.Intn(1_000_000)), SecurityFee: uint64(r.Intn(1_000_000))}
}

func rSender(r *rand.Rand) []byte {
	return rBytes(r, []int{20, 20, 20, 32, 0, 1}[r.Intn(6)])
}

func baseMessage(r *rand.Rand) *evmtypes.Message {
	return &evmtypes.Message{
		TurnstoneID:           rTurnstoneID(r),
		ChainReferenceID:      []string{"eth-main", "bnb-main", "base-main", "arb-main"}[r.Intn(4)],
		CompassAddr:           rAddr(r),
		Assignee:              rBech(r, "palomavaloper"),
		AssignedAtBlockHeight: sdkmath.NewInt(int64(1 + r.Intn(1_000_000))),
		AssigneeRemoteAddress: rAddr(r),
	}
}

func genTurnstone(kind string, r *rand.Rand) *tsItem {
	m := baseMessage(r)
	switch kind {
	case "SubmitLogicCall":
		m.Action = &evmtypes.Message_SubmitLogicCall{SubmitLogicCall: &evmtypes.SubmitLogicCall{
			HexContractAddress:    rAddr(r),
			Abi:                   rBytes(r, 10+r.Intn(50)),
			Payload:               rBytes(r, rPayloadLen(r)),
			Deadline:              1_700_000_000 + int64(r.Intn(100_000_000)),
			SenderAddress:         rSender(r),
			ContractAddress:       rBytes(r, []int{0, 20, 32}[r.Intn(3)]),
			ExecutionRequirements: evmtypes.SubmitLogicCall_ExecutionRequirements{EnforceMEVRelay: r.Intn(2) == 0},
			Retries:               uint32(r.Intn(3)),
			Fees:                  rFees(r),
		}}
	case "UploadUserSmartContract":
		m.Action = &evmtypes.Message_UploadUserSmartContract{UploadUserSmartContract: &evmtypes.UploadUserSmartContract{
			Bytecode:        rBytes(r, 1+rPayloadLen(r)),
			DeployerAddress: rAddr(r),
			Deadline:        1_700_000_000 + int64(r.Intn(100_000_000)),
			SenderAddress:   rSender(r),
			BlockHeight:     int64(r.Intn(1_000_000)),
			Id:              uint64(r.Intn(1000)),
			Retries:         uint32(r.Intn(3)),
			Fees:            rFees(r),
		}}
	case "UpdateValset":
		n := []int{1, 2, 3, 5, 8, 30, 100}[r.Intn(7)]
		vs := &evmtypes.Valset{ValsetID: uint64(1 + r.Intn(100000))}
		rest := uint64(1 << 32)
		for i := 0; i < n; i++ {
			vs.Validators = append(vs.Validators, rAddr(r))
			p := rest / uint64(n-i)
			if i < n-1 && p > 2 {
				p = p/2 + uint64(r.Int63n(int64(p/2)))
			}
			vs.Powers = append(vs.Powers, p)
			rest -= p
		}
		m.Action = &evmtypes.Message_UpdateValset{UpdateValset: &evmtypes.UpdateValset{Valset: vs}}
	case "CompassHandover":
		h := &evmtypes.CompassHandover{Deadline: 1_700_000_000 + int64(r.Intn(100_000_000)), Id: uint64(1 + r.Intn(50))}
		n := []int{0, 1, 2, 3, 10}[r.Intn(5)]
		for i := 0; i < n; i++ {
			h.ForwardCallArgs = append(h.ForwardCallArgs, evmtypes.CompassHandover_ForwardCallArgs{
				HexContractAddress: rAddr(r), Payload: rBytes(r, rPayloadLen(r)),
			})
		}
		m.Action = &evmtypes.Message_CompassHandover{CompassHandover: h}
	case "UploadSmartContract":
		m.Action = &evmtypes.Message_UploadSmartContract{UploadSmartContract: &evmtypes.UploadSmartContract{
			Bytecode:         rBytes(r, 1+rPayloadLen(r)),
			Abi:              `[{"inputs":[],"stateMutability":"nonpayable","type":"constructor"}]`,
			ConstructorInput: rBytes(r, 32*r.Intn(4)),
			Id:               uint64(1 + r.Intn(50)),
			Retries:          uint32(r.Intn(3)),
		}}
	default:
		panic("unknown kind " + kind)
	}
	qid := uint64(1 + r.Intn(1_000_000))
	if r.Intn(10) == 0 {
		qid = []uint64{1, 1 << 32, 1<<63 - 1, 1 << 63, 1<<64 - 1}[r.Intn(5)]
	}
	return &tsItem{Msg: m, QID: qid, Gas: rGas(r)}
}

func genBatch(r *rand.Rand) *batchItem {
	n := []int{1, 1, 2, 3, 5, 10, 37, 100}[r.Intn(8)]
	token := rAddr(r)
	ref := []string{"eth-main", "bnb-main", "base-main"}[r.Intn(3)]
	b := &skywaytypes.OutgoingTxBatch{
		BatchNonce:            uint64(1 + r.Intn(100000)),
		BatchTimeout:          uint64(1_700_000_000 + r.Intn(100_000_000)),
		TokenContract:         token,
		PalomaBlockCreated:    uint64(r.Intn(1_000_000)),
		ChainReferenceId:      ref,
		BytesToSign:           rBytes(r, 32),
		Assignee:              rBech(r, "palomavaloper"),
		GasEstimate:           rGas(r),
		AssigneeRemoteAddress: rBytes(r, 20),
	}
	for i := 0; i < n; i++ {
		amt := sdkmath.NewInt(1 + r.Int63n(1_000_000_000))
		if r.Intn(20) == 0 {
			amt = sdkmath.NewIntFromUint64(1 << 63).MulRaw(int64(1 + r.Intn(1000)))
		}
		b.Transactions = append(b.Transactions, skywaytypes.OutgoingTransferTx{
			Id:              uint64(1 + r.Intn(100000)),
			Sender:          rBech(r, "paloma"),
			DestAddress:     rAddr(r),
			Erc20Token:      skywaytypes.ERC20Token{Contract: token, Amount: amt, ChainReferenceId: ref},
			BridgeTaxAmount: sdkmath.NewInt(int64(r.Intn(1000))),
		})
	}
	return &batchItem{Batch: b, TurnstoneID: rTurnstoneID(r)}
}

func genItem(kind string, r *rand.Rand) item {
	if kind == "Batch" {
		return genBatch(r)
	}
	return genTurnstone(kind, r)
}

var _ = fmt.Sprint
