package c05

// Part 1: metamorphic oracle over signing bytes.
//
//	S(X) = bytes the REAL code asks validators to sign (QueuedSignedMessage.GetBytesToSign after a
//	       store-like marshal/unmarshal round trip; OutgoingTxBatch.GetCheckpoint for batches)
//	D(X) = delivered view from the independent model in encode.go
//
// For every pair (X, X') : D(X) != D(X')  =>  S(X) != S(X').
// The model is tied to the code's own notion of delivered call data with VerifyAgainstTX
// (calibration on base items; per-field differential classification on single-field mutants).

import (
	"context"
	"crypto/sha256"
	"encoding/hex"
	"errors"
	"fmt"
	"math/rand"
	"reflect"
	"regexp"
	"sort"
	"strings"

	"cosmossdk.io/log"
	cmtproto "github.com/cometbft/cometbft/proto/tendermint/types"
	codectypes "github.com/cosmos/cosmos-sdk/codec/types"
	sdk "github.com/cosmos/cosmos-sdk/types"
	ethtypes "github.com/ethereum/go-ethereum/core/types"

	consensustypes "github.com/palomachain/paloma/v2/x/consensus/types"
	evmtypes "github.com/palomachain/paloma/v2/x/evm/types"
	skywaytypes "github.com/palomachain/paloma/v2/x/skyway/types"

	"verif/harness/fw"
)

type signRes struct {
	Bz    []byte
	Err   string
	Panic string
}

func (s signRes) ok() bool { return s.Err == "" && s.Panic == "" && len(s.Bz) > 0 }

type item interface {
	kind() string
	clone() item          // deep copy in normal form (protobuf round trip)
	root() reflect.Value  // settable struct
	sign() signRes        // REAL code
	delivered() ([]byte, error)
	dump() any
}

var registry = func() codectypes.InterfaceRegistry {
	reg := codectypes.NewInterfaceRegistry()
	consensustypes.RegisterInterfaces(reg)
	evmtypes.RegisterInterfaces(reg)
	return reg
}()

// ---------------------------------------------------------------------------------------------
// turnstone items

type tsItem struct {
	Msg *evmtypes.Message
	QID uint64 // id the queue gave the message (QueuedSignedMessage.Id)
	Gas uint64 // elected gas estimate (QueuedSignedMessage.GasEstimate)
}

func (t *tsItem) kind() string { return actionName(t.Msg) }

func (t *tsItem) clone() item {
	bz, err := t.Msg.Marshal()
	if err != nil {
		panic(err)
	}
	var m evmtypes.Message
	if err := m.Unmarshal(bz); err != nil {
		panic(err)
	}
	return &tsItem{Msg: &m, QID: t.QID, Gas: t.Gas}
}

func (t *tsItem) root() reflect.Value { return reflect.ValueOf(t).Elem() }

// queued builds what the consensus queue stores and reads back: a QueuedSignedMessage with the
// message packed as Any, marshalled and unmarshalled again.
func (t *tsItem) queued(withSig bool) (*consensustypes.QueuedSignedMessage, error) {
	anyMsg, err := codectypes.NewAnyWithValue(t.Msg)
	if err != nil {
		return nil, err
	}
	q := &consensustypes.QueuedSignedMessage{Id: t.QID, Msg: anyMsg, GasEstimate: t.Gas, RequireSignatures: true, FlagMask: 1}
	if withSig {
		q.SignData = []*consensustypes.SignData{{ExternalAccountAddress: fixValsetAddr.Hex(), Signature: fixSig}}
	}
	bz, err := q.Marshal()
	if err != nil {
		return nil, err
	}
	var q2 consensustypes.QueuedSignedMessage
	if err := q2.Unmarshal(bz); err != nil {
		return nil, err
	}
	return &q2, nil
}

func (t *tsItem) sign() (res signRes) {
	defer func() {
		if e := recover(); e != nil {
			res = signRes{Panic: fmt.Sprint(e)}
		}
	}()
	q, err := t.queued(false)
	if err != nil {
		return signRes{Err: "queue: " + err.Error()}
	}
	bz, err := q.GetBytesToSign(registry)
	if err != nil {
		return signRes{Err: err.Error()}
	}
	return signRes{Bz: bz}
}

func (t *tsItem) delivered() ([]byte, error) { return deliveredTurnstone(t.Msg, t.QID, t.Gas) }

func (t *tsItem) dump() any {
	return map[string]any{"kind": t.kind(), "queue_id": t.QID, "gas_estimate": t.Gas, "message": t.Msg}
}

var verifyCtx = sdk.NewContext(nil, cmtproto.Header{}, false, log.NewNopLogger())

type txVerifier interface {
	VerifyAgainstTX(context.Context, *ethtypes.Transaction, consensustypes.QueuedSignedMessageI, *evmtypes.Valset, *evmtypes.SmartContract, string) error
}

// codeVerify asks the REAL code whether message t is the one delivered by a tx with this call
// data: nil = yes, ErrEthTxNotVerified = no, other = n/a.
func (t *tsItem) codeVerify(data []byte) (verdict string) {
	defer func() {
		if e := recover(); e != nil {
			verdict = "panic"
		}
	}()
	q, err := t.queued(true)
	if err != nil {
		return "na"
	}
	cm, err := q.ConsensusMsg(registry)
	if err != nil {
		return "na"
	}
	m, ok := cm.(*evmtypes.Message)
	if !ok {
		return "na"
	}
	var v txVerifier
	switch a := m.GetAction().(type) {
	case *evmtypes.Message_SubmitLogicCall:
		v = a.SubmitLogicCall
	case *evmtypes.Message_UpdateValset:
		v = a.UpdateValset
	case *evmtypes.Message_UploadUserSmartContract:
		v = a.UploadUserSmartContract
	case *evmtypes.Message_CompassHandover:
		v = a.CompassHandover
	default:
		return "na"
	}
	if reflect.ValueOf(v).IsNil() {
		return "na"
	}
	tx := ethtypes.NewTx(&ethtypes.LegacyTx{Data: data})
	vs := &evmtypes.Valset{Validators: []string{fixValsetAddr.Hex()}, Powers: []uint64{1 << 32}, ValsetID: 77}
	cABI()
	err = v.VerifyAgainstTX(verifyCtx, tx, q, vs, &evmtypes.SmartContract{Id: 1, AbiJSON: abiJSON}, m.AssigneeRemoteAddress)
	switch {
	case err == nil:
		return "match"
	case errors.Is(err, evmtypes.ErrEthTxNotVerified):
		return "differs"
	}
	return "na"
}

// ---------------------------------------------------------------------------------------------
// batches

type batchItem struct {
	Batch       *skywaytypes.OutgoingTxBatch
	TurnstoneID string // deployment id of the chain's compass, argument of GetCheckpoint
}

func (b *batchItem) kind() string { return "Batch" }

func (b *batchItem) clone() item {
	bz, err := b.Batch.Marshal()
	if err != nil {
		panic(err)
	}
	var n skywaytypes.OutgoingTxBatch
	if err := n.Unmarshal(bz); err != nil {
		panic(err)
	}
	return &batchItem{Batch: &n, TurnstoneID: b.TurnstoneID}
}

func (b *batchItem) root() reflect.Value { return reflect.ValueOf(b).Elem() }

func (b *batchItem) sign() (res signRes) {
	defer func() {
		if e := recover(); e != nil {
			res = signRes{Panic: fmt.Sprint(e)}
		}
	}()
	// store-like round trip first
	c := b.clone().(*batchItem)
	bz, err := c.Batch.GetCheckpoint(c.TurnstoneID)
	if err != nil {
		return signRes{Err: err.Error()}
	}
	return signRes{Bz: bz}
}

func (b *batchItem) delivered() ([]byte, error) { return deliveredBatch(b.Batch, b.TurnstoneID) }

func (b *batchItem) dump() any {
	return map[string]any{"kind": "Batch", "turnstone_id": b.TurnstoneID, "batch": b.Batch}
}

// ---------------------------------------------------------------------------------------------

type mmParams struct {
	Mode  string `json:"mode"` // mm
	Bases int    `json:"bases"` // base items per kind
	Multi int    `json:"multi"` // multi-field mutants per base item
}

type mutation struct {
	Path string
	Leaf int
	Alt  int
}

// applyMut clones base and applies the mutations (leaf index / alt index resolved on the clone
// with the given alt seed); returns the mutant in normal form. ok=false if an index is gone.
func applyMut(base item, muts []mutation, altSeed int64) (item, bool) {
	c := base.clone()
	var ls []leaf
	leaves("", c.root(), &ls)
	for _, m := range muts {
		if m.Leaf >= len(ls) {
			return nil, false
		}
		as := alts(ls[m.Leaf], rand.New(rand.NewSource(altSeed+int64(m.Leaf)*7919)))
		if m.Alt >= len(as) {
			return nil, false
		}
		ls[m.Leaf].V.Set(as[m.Alt])
	}
	ok := true
	func() {
		defer func() {
			if e := recover(); e != nil {
				ok = false // value not encodable as protobuf (cannot exist in a store)
			}
		}()
		c = c.clone()
	}()
	return c, ok
}

func short(b []byte) string {
	h := sha256.Sum256(b)
	return hex.EncodeToString(h[:8])
}

var idxRe = regexp.MustCompile(`\[\d+\]`)

func isGasPath(p string) bool {
	return p == "Gas" || strings.HasSuffix(p, ".GasEstimate")
}

type mmRun struct {
	rec  *fw.Recorder
	seen map[string]seenEntry // S -> first (D, description) that produced it
}

type seenEntry struct {
	D    string
	Kind string
	It   item
}

// global injectivity: the same signing bytes must never stand for two different delivered views,
// whatever the items are (covers cross-type and arbitrary multi-field differences).
func (m *mmRun) global(it item, s signRes, d []byte) {
	if !s.ok() || d == nil {
		return
	}
	k := string(s.Bz)
	dh := short(d)
	if e, ok := m.seen[k]; ok {
		m.rec.Eval(1)
		if e.D != dh {
			sig := "sign-bytes-collision/" + it.kind() + "/any-two-items"
			if e.Kind != it.kind() {
				ks := []string{e.Kind, it.kind()}
				sort.Strings(ks)
				sig = "sign-bytes-collision/cross/" + ks[0] + "~" + ks[1]
			}
			m.rec.Violation(sig,
				fmt.Sprintf("two items with different delivered calls (%s vs %s) have identical signing bytes %x", e.Kind, it.kind(), s.Bz),
				map[string]any{"first": e.It.dump(), "second": it.dump()})
		}
		return
	}
	if len(m.seen) < 60000 {
		m.seen[k] = seenEntry{D: dh, Kind: it.kind(), It: it}
	}
}

func (m *mmRun) pair(base, mut item, sb, sm signRes, db, dm []byte, dbErr, dmErr error, paths []string, single bool) (collided bool) {
	rec := m.rec
	kind := base.kind()
	rec.Count("pairs_total", 1)
	rec.Count("pairs/"+kind, 1)
	if single {
		rec.Count("pairs_single_field", 1)
		rec.Count("f:"+kind+"."+paths[0]+":pairs", 1)
	} else {
		rec.Count("pairs_multi_field", 1)
	}
	if sm.Panic != "" {
		rec.Count("mutant_sign_panics", 1)
		if single {
			rec.Count("sign_panic/"+kind+"."+paths[0], 1)
		}
		return false
	}
	if sm.Err != "" {
		rec.Count("mutant_sign_errors", 1) // nothing is offered for signing
		return false
	}
	if dmErr != nil || dbErr != nil {
		rec.Count("mutant_undeliverable", 1)
		return false
	}
	if sameBytes(db, dm) {
		rec.Count("pairs_delivered_equal", 1) // field not delivered, or equal as delivered
		if !sameBytes(sb.Bz, sm.Bz) {
			rec.Count("pairs_signed_but_not_delivered", 1)
		}
		return false
	}
	// the delivered call differs: the oracle applies
	rec.Eval(1)
	rec.Count("pairs_delivered_changed", 1)
	if single {
		rec.Count("f:"+kind+"."+paths[0]+":delivered_model", 1)
	}
	rec.Distinct(kind + "|" + short(db) + "|" + short(dm))
	if sameBytes(sb.Bz, sm.Bz) {
		return true
	}
	return false
}

func runMM(c fw.Case, tier string, rec *fw.Recorder) {
	var p mmParams
	c.Decode(&p)
	r := c.Rand()
	m := &mmRun{rec: rec, seen: map[string]seenEntry{}}
	for _, kind := range kinds {
		for bi := 0; bi < p.Bases; bi++ {
			baseSeed := r.Int63()
			altSeed := r.Int63()
			multiSeed := r.Int63()
			base := genItem(kind, rand.New(rand.NewSource(baseSeed))).clone()
			rec.Op(map[string]any{"op": "base", "kind": kind, "i": bi, "base_seed": baseSeed, "alt_seed": altSeed})
			m.oneBase(kind, bi, base, altSeed, multiSeed, p.Multi)
		}
	}
}

func (m *mmRun) oneBase(kind string, bi int, base item, altSeed, multiSeed int64, nMulti int) {
	rec := m.rec
	sb := base.sign()
	db, dbErr := base.delivered()
	rec.Count("base_items", 1)
	rec.Count("base_items/"+kind, 1)
	if !sb.ok() {
		// a generated base item the code refuses to hash: nothing to compare against
		rec.Count("base_unsignable", 1)
		if sb.Panic != "" {
			rec.Count("base_sign_panics", 1)
		}
		return
	}
	if dbErr != nil {
		rec.Count("base_undeliverable", 1)
		return
	}
	m.global(base, sb, db)
	if bi < 1 {
		rec.Sample(map[string]any{"base": base.dump(), "signing_bytes": hex.EncodeToString(sb.Bz), "delivered_sha": short(db)})
	}

	// calibration: the code must accept its own message for the call data my encoder builds
	ts, isTS := base.(*tsItem)
	var rawBase []byte
	calibrated := false
	if isTS && kind != "UploadSmartContract" {
		raw, err := callData(ts.Msg, ts.QID, ts.Gas, false)
		if err == nil {
			switch v := ts.codeVerify(raw); v {
			case "match":
				rec.Count("calibration_ok", 1)
				rec.Count("calibration_ok/"+kind, 1)
				calibrated = true
				rawBase = raw
			case "differs":
				rec.Count("calibration_fail", 1)
				rec.Inconclusive(fmt.Sprintf("calibration: the code's VerifyAgainstTX rejects the call data the independent encoder builds for a %s message - delivered-view model out of sync with the code", kind))
				rec.Sample(map[string]any{"calibration_fail": base.dump()})
			default:
				rec.Count("calibration_na", 1)
			}
		} else {
			rec.Count("calibration_skipped_raw_undeliverable", 1) // e.g. no fees attached yet
		}
	}

	var ls []leaf
	leaves("", base.clone().root(), &ls)
	// number of alts per leaf (deterministic given altSeed)
	nAlts := make([]int, len(ls))
	for i := range ls {
		nAlts[i] = len(alts(ls[i], rand.New(rand.NewSource(altSeed+int64(i)*7919))))
	}

	report := func(mut item, sm signRes, paths []string, how string) {
		sig := "sign-bytes-collision/" + kind + "/" + strings.Join(paths, "+")
		rec.Violation(sig,
			fmt.Sprintf("%s: changing %s changes what the remote contract is handed (%s) but the signing bytes stay %x", kind, strings.Join(paths, ", "), how, sb.Bz),
			map[string]any{"base": base.dump(), "mutant": mut.dump(), "fields": paths, "signing_bytes": hex.EncodeToString(sb.Bz), "classified_by": how})
	}

	// single-field mutants: every leaf x every alternative
	for li := range ls {
		path := idxRe.ReplaceAllString(ls[li].Path, "[]")
		for ai := 0; ai < nAlts[li]; ai++ {
			mut, ok := applyMut(base, []mutation{{Leaf: li, Alt: ai}}, altSeed)
			if !ok {
				rec.Count("mutants_not_encodable", 1)
				continue
			}
			sm := mut.sign()
			dm, dmErr := mut.delivered()
			if m.pair(base, mut, sb, sm, db, dm, nil, dmErr, []string{path}, true) {
				report(mut, sm, []string{path}, "independent encoder")
			}
			m.global(mut, sm, dm)
			// the code's own classification
			if calibrated && sm.ok() {
				mts := mut.(*tsItem)
				switch mts.codeVerify(rawBase) {
				case "differs":
					rec.Count("f:"+kind+"."+path+":delivered_code", 1)
					rec.Count("code_classified_delivered", 1)
					rec.Eval(1)
					rawMut, err := callData(mts.Msg, mts.QID, mts.Gas, false)
					if err == nil && sameBytes(rawMut, rawBase) {
						rec.Count("calibration_disagree_code_strict", 1)
						rec.Sample(map[string]any{"note": "code rejects, encoder says same call data", "kind": kind, "field": path, "mutant": mut.dump()})
					}
					if sameBytes(sb.Bz, sm.Bz) {
						// documented equal-as-delivered: no estimate (0) is delivered as 300000
						if isGasPath(path) && normGas(ts.Gas) == normGas(mts.Gas) {
							rec.Count("documented_default_gas_pairs", 1)
						} else if dmErr == nil && !sameBytes(db, dm) {
							// already reported through the model branch
						} else {
							report(mut, sm, []string{path}, "code's VerifyAgainstTX")
						}
					}
				case "match":
					rec.Count("code_classified_not_delivered", 1)
					rawMut, err := callData(mts.Msg, mts.QID, mts.Gas, false)
					if err == nil && !sameBytes(rawMut, rawBase) {
						rec.Count("calibration_disagree_code_lax", 1)
						rec.Sample(map[string]any{"note": "code accepts the base's tx for the mutant, encoder says call data differs", "kind": kind, "field": path, "mutant": mut.dump()})
					}
				case "panic":
					rec.Count("verify_panics", 1)
				}
			}
		}
	}

	// multi-field mutants: 2-4 leaves at once
	mr := rand.New(rand.NewSource(multiSeed))
	for k := 0; k < nMulti && len(ls) >= 2; k++ {
		n := 2 + mr.Intn(3)
		if n > len(ls) {
			n = len(ls)
		}
		perm := mr.Perm(len(ls))
		var muts []mutation
		var paths []string
		for _, li := range perm {
			if len(muts) == n {
				break
			}
			if nAlts[li] == 0 || strings.HasSuffix(ls[li].Path, "?") || strings.HasSuffix(ls[li].Path, "[#]") {
				continue // presence / list-shape changes would shift the other leaf indices
			}
			muts = append(muts, mutation{Leaf: li, Alt: mr.Intn(nAlts[li]), Path: idxRe.ReplaceAllString(ls[li].Path, "[]")})
		}
		if len(muts) < 2 {
			continue
		}
		for _, mu := range muts {
			paths = append(paths, mu.Path)
		}
		sort.Strings(paths)
		mut, ok := applyMut(base, muts, altSeed)
		if !ok {
			rec.Count("mutants_not_encodable", 1)
			continue
		}
		sm := mut.sign()
		dm, dmErr := mut.delivered()
		if m.pair(base, mut, sb, sm, db, dm, nil, dmErr, paths, false) {
			// attribute: which of the fields collide on their own?
			var own []string
			for _, mu := range muts {
				one, ok := applyMut(base, []mutation{mu}, altSeed)
				if !ok {
					continue
				}
				so := one.sign()
				do, err := one.delivered()
				if err == nil && so.ok() && !sameBytes(do, db) && sameBytes(so.Bz, sb.Bz) {
					dup := false
					for _, o := range own {
						dup = dup || o == mu.Path
					}
					if !dup {
						own = append(own, mu.Path)
					}
				}
			}
			if len(own) > 0 {
				sort.Strings(own)
				report(mut, sm, own, "independent encoder, multi-field change")
			} else {
				report(mut, sm, []string{"multi(" + strings.Join(paths, ",") + ")"}, "independent encoder, multi-field change")
			}
		}
		m.global(mut, sm, dm)
	}
}

