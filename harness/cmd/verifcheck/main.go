// verifcheck: runtime-monitoring checks for the paloma properties (see /verif/DESIGN.md).
package main

import (
	"os"

	"verif/harness/fw"
	_ "verif/harness/mon"
)

func main() { os.Exit(fw.Main()) }
