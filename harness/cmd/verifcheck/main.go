// verifcheck: runtime-monitoring checks for the paloma properties (see /verif/DESIGN.md).
package main

import (
	"flag"
	"fmt"
	"os"
	"path/filepath"
	"strconv"

	"verif/harness/fw"
	_ "verif/harness/mon"
)

func main() {
	if len(os.Args) < 2 {
		fmt.Println("usage: verifcheck run|worker|replay|list ...")
		os.Exit(fw.ExitUsage)
	}
	fs := flag.NewFlagSet(os.Args[1], flag.ExitOnError)
	prop := fs.String("prop", "", "property id")
	tier := fs.String("tier", "quick", "quick|thorough")
	caseFile := fs.String("case", "", "case file (worker)")
	outFile := fs.String("out", "", "result file (worker)")
	opLog := fs.String("oplog", "", "operation log (worker)")
	file := fs.String("file", "", "replay file")
	fs.Parse(os.Args[2:])
	if t := os.Getenv("VERIF_TIER"); t != "" && os.Args[1] == "run" {
		// the command line decides; VERIF_TIER is only used when the wrapper passes none
		_ = t
	}
	if os.Args[1] == "list" {
		for _, id := range fw.IDs() {
			fmt.Println(id)
		}
		return
	}
	p := fw.Lookup(*prop)
	if p == nil {
		fmt.Printf("unknown property %q (have %v)\n", *prop, fw.IDs())
		os.Exit(fw.ExitUsage)
	}
	verifDir := os.Getenv("VERIF_DIR")
	if verifDir == "" {
		verifDir, _ = os.Getwd()
	}
	verifDir, _ = filepath.Abs(verifDir)
	switch os.Args[1] {
	case "run":
		seed := int64(1)
		if s := os.Getenv("VERIF_SEED"); s != "" {
			if v, err := strconv.ParseInt(s, 10, 64); err == nil {
				seed = v
			}
		}
		os.Exit(fw.RunCheck(p, *tier, seed, verifDir))
	case "worker":
		os.Exit(fw.RunWorker(p, *tier, *caseFile, *outFile, *opLog))
	case "replay":
		os.Exit(fw.Replay(p, *file))
	default:
		fmt.Println("unknown command", os.Args[1])
		os.Exit(fw.ExitUsage)
	}
}
