package fw

import (
	"bufio"
	"context"
	"encoding/json"
	"fmt"
	"os"
	"os/exec"
	"path/filepath"
	"runtime/debug"
	"sort"
	"strconv"
	"strings"
	"sync"
	"syscall"
	"time"
)

const (
	ExitHeld         = 0
	ExitViolation    = 1
	ExitUsage        = 2
	ExitInconclusive = 3
)

type knownFinding struct {
	Property  string
	Signature string
	What      string
}

// known_findings.txt lines:
//   known: property=Cnn signature=<sig> <what fails>
//   fixed: property=Cnn <commit> <what failed>          (suppresses nothing)
func loadKnown(verifDir string) []knownFinding {
	f, err := os.Open(filepath.Join(verifDir, "known_findings.txt"))
	if err != nil {
		return nil
	}
	defer f.Close()
	var out []knownFinding
	sc := bufio.NewScanner(f)
	for sc.Scan() {
		line := strings.TrimSpace(sc.Text())
		if !strings.HasPrefix(line, "known:") {
			continue
		}
		fields := strings.Fields(strings.TrimPrefix(line, "known:"))
		var k knownFinding
		var rest []string
		for _, fl := range fields {
			switch {
			case strings.HasPrefix(fl, "property=") && k.Property == "":
				k.Property = strings.TrimPrefix(fl, "property=")
			case strings.HasPrefix(fl, "signature=") && k.Signature == "":
				k.Signature = strings.TrimPrefix(fl, "signature=")
			default:
				rest = append(rest, fl)
			}
		}
		k.What = strings.Join(rest, " ")
		if k.Property != "" && k.Signature != "" {
			out = append(out, k)
		}
	}
	return out
}

type replayFile struct {
	Property  string    `json:"property"`
	Tier      string    `json:"tier"`
	Violation Violation `json:"violation"`
}

// RunCheck is the parent: fans the case list out to worker processes and merges.
func RunCheck(p *Prop, tier string, seed int64, verifDir string) int {
	start := time.Now()
	outDir := filepath.Join(verifDir, "out", p.ID)
	evidencePath := filepath.Join(verifDir, "evidence", p.ID+".json")
	if sfx := os.Getenv("VERIF_OUT_SUFFIX"); sfx != "" {
		// development runs (tools/devcheck.sh) keep away from the registered check's files
		outDir = filepath.Join(verifDir, "out", sfx, p.ID, "run")
		evidencePath = filepath.Join(verifDir, "out", sfx, p.ID, "evidence.json")
	}
	os.RemoveAll(outDir)
	os.MkdirAll(outDir, 0o755)
	os.MkdirAll(filepath.Join(verifDir, "evidence"), 0o755)
	cases := p.Cases(tier, seed)
	if f := os.Getenv("VERIF_CASE_FILTER"); f != "" && os.Getenv("VERIF_OUT_SUFFIX") != "" {
		// development runs only (tools/devcheck.sh): restrict to the cases whose name contains f
		var sel []Case
		for _, c := range cases {
			if strings.Contains(c.Name, f) {
				sel = append(sel, c)
			}
		}
		cases = sel
	}
	workers := p.Workers
	if workers == 0 {
		workers = 16
	}
	if w, err := strconv.Atoi(os.Getenv("VERIF_WORKERS")); err == nil && w > 0 {
		workers = w
	}
	timeout := time.Duration(p.TimeoutS) * time.Second
	if timeout == 0 {
		timeout = 15 * time.Minute
	}
	self, _ := os.Executable()
	results := make([]*CaseResult, len(cases))
	notes := make([]string, len(cases))
	var wg sync.WaitGroup
	sem := make(chan struct{}, workers)
	for i := range cases {
		wg.Add(1)
		sem <- struct{}{}
		go func(i int) {
			defer wg.Done()
			defer func() { <-sem }()
			base := filepath.Join(outDir, fmt.Sprintf("case-%04d", i))
			cf := base + ".case.json"
			b, _ := json.Marshal(cases[i])
			os.WriteFile(cf, b, 0o644)
			ctx, cancel := context.WithTimeout(context.Background(), timeout)
			defer cancel()
			cmd := exec.CommandContext(ctx, self, "worker", "--prop", p.ID, "--tier", tier, "--case", cf, "--out", base+".result.json", "--oplog", base+".ops.jsonl")
			cmd.Cancel = func() error { return cmd.Process.Signal(syscall.SIGQUIT) }
			cmd.WaitDelay = 10 * time.Second
			lf, _ := os.Create(base + ".log")
			cmd.Stdout, cmd.Stderr = lf, lf
			cmd.Env = append(os.Environ(), "VERIF_TMP="+base+".tmp")
			err := cmd.Run()
			lf.Close()
			os.RemoveAll(base + ".tmp")
			rb, rerr := os.ReadFile(base + ".result.json")
			var cr CaseResult
			if rerr == nil && json.Unmarshal(rb, &cr) == nil && cr.Done {
				results[i] = &cr
				if len(cr.Violations) == 0 && cr.Inconclusive == "" {
					os.Remove(base + ".ops.jsonl")
					os.Remove(base + ".log")
					os.Remove(base + ".case.json")
					os.Remove(base + ".result.json")
				}
				return
			}
			if ctx.Err() != nil {
				notes[i] = fmt.Sprintf("case %s: watchdog (%s) fired, see %s.log", cases[i].Name, timeout, base)
			} else {
				notes[i] = fmt.Sprintf("case %s: worker died (%v), see %s.log", cases[i].Name, err, base)
			}
		}(i)
	}
	wg.Wait()

	// merge
	counters := map[string]int64{}
	distinct := map[string]struct{}{}
	var evals, distinctN int64
	var samples []any
	var vios []Violation
	var inconcl []string
	for i, cr := range results {
		if cr == nil {
			inconcl = append(inconcl, notes[i])
			continue
		}
		evals += cr.Evaluations
		distinctN += cr.DistinctN
		for k, v := range cr.Counters {
			counters[k] += v
		}
		for _, d := range cr.Distinct {
			distinct[d] = struct{}{}
		}
		if len(samples) < 4 {
			for _, s := range cr.Samples {
				if len(samples) < 4 {
					samples = append(samples, s)
				}
			}
		}
		vios = append(vios, cr.Violations...)
		if cr.Inconclusive != "" {
			inconcl = append(inconcl, fmt.Sprintf("case %s: %s", cr.Case.Name, cr.Inconclusive))
		}
	}
	for _, mc := range p.MinCounters {
		if counters[mc] == 0 {
			inconcl = append(inconcl, fmt.Sprintf("counter %q is zero: the run observed nothing relevant", mc))
		}
	}

	known := loadKnown(verifDir)
	isKnown := func(sig string) *knownFinding {
		for i := range known {
			if known[i].Property == p.ID && known[i].Signature == sig {
				return &known[i]
			}
		}
		return nil
	}
	knownSeen := map[string]int{}
	unknownSeen := map[string]int{}
	var lines []string
	for _, v := range vios {
		if k := isKnown(v.Signature); k != nil {
			knownSeen[v.Signature]++
			if knownSeen[v.Signature] == 1 {
				lines = append(lines, fmt.Sprintf("KNOWN-FINDING: property=%s signature=%s %s", p.ID, v.Signature, k.What))
			}
			continue
		}
		unknownSeen[v.Signature]++
		if unknownSeen[v.Signature] > 2 {
			continue
		}
		rp := filepath.Join(outDir, fmt.Sprintf("violation-%s-%d.replay.json", sanitize(v.Signature), unknownSeen[v.Signature]))
		b, _ := json.MarshalIndent(replayFile{Property: p.ID, Tier: tier, Violation: v}, "", " ")
		os.WriteFile(rp, b, 0o644)
		lines = append(lines, fmt.Sprintf("VIOLATION property=%s replay=%s", p.ID, rp))
		lines = append(lines, fmt.Sprintf("  signature=%s %s", v.Signature, v.Message))
	}

	// evidence
	ckeys := make([]string, 0, len(counters))
	for k := range counters {
		ckeys = append(ckeys, k)
	}
	sort.Strings(ckeys)
	cov := map[string]any{
		"evaluations":         evals,
		"distinct_nontrivial": int64(len(distinct)) + distinctN,
		"rule":                p.Rule,
		"samples":             samples,
		"cases":               len(cases),
		"counters":            counters,
		"known_findings_hit":  knownSeen,
		"inconclusive":        inconcl,
	}
	if p.Exhaustive != nil && p.Exhaustive(tier) {
		cov["exhaustive"] = true
	}
	if samples == nil {
		cov["samples"] = []any{}
	}
	ev := map[string]any{
		"property_id": p.ID,
		"tier":        tier,
		"seed":        seed,
		"level":       p.Level,
		"coverage":    cov,
		"assumptions": p.Assumptions,
		"wall_s":      time.Since(start).Seconds(),
		"violations":  len(unknownSeen),
	}
	eb, _ := json.MarshalIndent(ev, "", " ")
	os.WriteFile(evidencePath, append(eb, '\n'), 0o644)

	fmt.Printf("%s tier=%s seed=%d cases=%d evaluations=%d distinct_nontrivial=%d wall=%.1fs\n", p.ID, tier, seed, len(cases), evals, int64(len(distinct))+distinctN, time.Since(start).Seconds())
	for _, k := range ckeys {
		fmt.Printf("  %-48s %d\n", k, counters[k])
	}
	for _, l := range lines {
		fmt.Println(l)
	}
	if len(unknownSeen) > 0 {
		return ExitViolation
	}
	if len(inconcl) > 0 {
		for _, n := range inconcl {
			fmt.Printf("INCONCLUSIVE property=%s %s\n", p.ID, n)
		}
		return ExitInconclusive
	}
	fmt.Printf("HELD property=%s on everything explored\n", p.ID)
	return ExitHeld
}

func sanitize(s string) string {
	var b strings.Builder
	for _, c := range s {
		if (c >= 'a' && c <= 'z') || (c >= 'A' && c <= 'Z') || (c >= '0' && c <= '9') || c == '-' || c == '_' || c == '.' {
			b.WriteRune(c)
		} else {
			b.WriteByte('_')
		}
	}
	if b.Len() > 80 {
		return b.String()[:80]
	}
	return b.String()
}

// RunWorker executes one case (inside a worker process).
func RunWorker(p *Prop, tier, caseFile, outFile, opLog string) int {
	b, err := os.ReadFile(caseFile)
	if err != nil {
		fmt.Println(err)
		return ExitUsage
	}
	var c Case
	if err := json.Unmarshal(b, &c); err != nil {
		fmt.Println(err)
		return ExitUsage
	}
	r := NewRecorder(c, opLog)
	defer r.Close()
	func() {
		defer func() {
			if e := recover(); e != nil {
				// a panic that reaches here is a harness problem (monitors recover what they
				// want to observe themselves): inconclusive, with the stack in the log.
				fmt.Printf("worker panic: %v\n%s\n", e, debug.Stack())
				r.Inconclusive(fmt.Sprintf("harness panic: %v", e))
			}
		}()
		p.Run(c, tier, r)
	}()
	res := r.Result()
	ob, _ := json.Marshal(res)
	if err := os.WriteFile(outFile, ob, 0o644); err != nil {
		fmt.Println(err)
		return ExitUsage
	}
	return 0
}

// Replay re-executes the case of a replay file in-process and reports whether the recorded
// violation signature shows up again.
func Replay(p *Prop, file string) int {
	b, err := os.ReadFile(file)
	if err != nil {
		fmt.Println(err)
		return ExitUsage
	}
	var rf replayFile
	if err := json.Unmarshal(b, &rf); err != nil {
		fmt.Println(err)
		return ExitUsage
	}
	r := NewRecorder(rf.Violation.Case, "")
	p.Run(rf.Violation.Case, rf.Tier, r)
	res := r.Result()
	for _, v := range res.Violations {
		if v.Signature == rf.Violation.Signature {
			wb, _ := json.MarshalIndent(v, "", " ")
			fmt.Printf("VIOLATION property=%s replay=%s\n  reproduced: %s\n", p.ID, file, string(wb))
			return ExitViolation
		}
	}
	fmt.Printf("not reproduced: signature %s did not occur (violations seen: %d)\n", rf.Violation.Signature, len(res.Violations))
	return ExitHeld
}
