package fw

import (
	"flag"
	"fmt"
	"os"
	"path/filepath"
	"strconv"
)

// Main is the command line shared by verifcheck and the per-property development binaries.
func Main() int {
	if len(os.Args) < 2 {
		fmt.Println("usage: verifcheck run|worker|replay|list ...")
		return ExitUsage
	}
	fs := flag.NewFlagSet(os.Args[1], flag.ExitOnError)
	prop := fs.String("prop", "", "property id")
	tier := fs.String("tier", "quick", "quick|thorough")
	caseFile := fs.String("case", "", "case file (worker)")
	outFile := fs.String("out", "", "result file (worker)")
	opLog := fs.String("oplog", "", "operation log (worker)")
	file := fs.String("file", "", "replay file")
	fs.Parse(os.Args[2:])
	if os.Args[1] == "list" {
		for _, id := range IDs() {
			fmt.Println(id)
		}
		return 0
	}
	p := Lookup(*prop)
	if p == nil {
		fmt.Printf("unknown property %q (have %v)\n", *prop, IDs())
		return ExitUsage
	}
	verifDir := os.Getenv("VERIF_DIR")
	if verifDir == "" {
		verifDir, _ = os.Getwd()
	}
	verifDir, _ = filepath.Abs(verifDir)
	switch os.Args[1] {
	case "run":
		seed := int64(1)
		if s := os.Getenv("VERIF_SEED"); s != "" {
			if v, err := strconv.ParseInt(s, 10, 64); err == nil {
				seed = v
			}
		}
		return RunCheck(p, *tier, seed, verifDir)
	case "worker":
		return RunWorker(p, *tier, *caseFile, *outFile, *opLog)
	case "replay":
		return Replay(p, *file)
	default:
		fmt.Println("unknown command", os.Args[1])
		return ExitUsage
	}
}
