// Package fw is the small framework shared by all property monitors: case lists, worker
// processes, recorders, known-finding matching and the evidence writer.
package fw

import (
	"crypto/sha256"
	"encoding/hex"
	"encoding/json"
	"fmt"
	"math/rand"
	"os"
	"sort"
	"sync"
)

// Case is one unit of work executed in a worker process. Params must be JSON-serialisable and
// fully determine the execution together with the seed (no wall-clock, no environment).
type Case struct {
	Name   string          `json:"name"`
	Seed   int64           `json:"seed"`
	Params json.RawMessage `json:"params,omitempty"`
}

func (c Case) Rand() *rand.Rand { return rand.New(rand.NewSource(c.Seed)) }

func (c Case) Decode(v any) {
	if len(c.Params) == 0 {
		return
	}
	if err := json.Unmarshal(c.Params, v); err != nil {
		panic(fmt.Sprintf("case params: %v", err))
	}
}

func MkCase(name string, seed int64, params any) Case {
	var raw json.RawMessage
	if params != nil {
		b, err := json.Marshal(params)
		if err != nil {
			panic(err)
		}
		raw = b
	}
	return Case{Name: name, Seed: seed, Params: raw}
}

// Prop describes one property check.
type Prop struct {
	ID          string
	Level       string // exploration | fault_enumeration | ...
	Rule        string // how cases are generated and what makes one distinct & non-trivial
	Assumptions []string
	Exhaustive  func(tier string) bool
	// Cases returns the fixed, seed-determined case list of a tier.
	Cases func(tier string, seed int64) []Case
	// Run executes one case inside a worker process.
	Run func(c Case, tier string, r *Recorder)
	// MinCounters: counters that must be > 0 over the whole run, otherwise the run observed
	// nothing relevant and is INCONCLUSIVE.
	MinCounters []string
	// Parallel workers (0 = default 16); TimeoutS per case (0 = default)
	Workers  int
	TimeoutS int
}

var registry = map[string]*Prop{}

func Register(p *Prop) { registry[p.ID] = p }
func Lookup(id string) *Prop { return registry[id] }
func IDs() []string {
	var ids []string
	for k := range registry {
		ids = append(ids, k)
	}
	sort.Strings(ids)
	return ids
}

// Violation is a refutation witness found by a monitor.
type Violation struct {
	Signature string `json:"signature"` // stable id of *what* fails (call site / msg type+field / fault point)
	Message   string `json:"message"`
	Case      Case   `json:"case"`
	Witness   any    `json:"witness,omitempty"`
}

// CaseResult is what a worker hands back to the parent.
type CaseResult struct {
	Case         Case             `json:"case"`
	Evaluations  int64            `json:"evaluations"`
	Counters     map[string]int64 `json:"counters"`
	Distinct     []string         `json:"distinct"` // hashes of distinct non-trivial cases
	DistinctN    int64            `json:"distinct_n"` // further cases that are distinct by construction (enumeration)
	Samples      []any            `json:"samples"`
	Violations   []Violation      `json:"violations"`
	Inconclusive string           `json:"inconclusive,omitempty"`
	Done         bool             `json:"done"`
}

// Recorder collects observations inside a worker. It is safe for concurrent use (monitors that
// run query goroutines use it too).
type Recorder struct {
	mu       sync.Mutex
	res      CaseResult
	distinct map[string]struct{}
	opLog    *os.File
	maxSamp  int
	vioSeen  map[string]int
}

func NewRecorder(c Case, opLogPath string) *Recorder {
	r := &Recorder{distinct: map[string]struct{}{}, maxSamp: 8, vioSeen: map[string]int{}}
	r.res.Case = c
	r.res.Counters = map[string]int64{}
	if opLogPath != "" {
		f, err := os.Create(opLogPath)
		if err == nil {
			r.opLog = f
		}
	}
	return r
}

// Op logs an operation BEFORE it is executed, so that a crash leaves the witness on disk.
func (r *Recorder) Op(v any) {
	if r.opLog == nil {
		return
	}
	b, _ := json.Marshal(v)
	r.mu.Lock()
	r.opLog.Write(append(b, '\n'))
	r.mu.Unlock()
}

func (r *Recorder) Eval(n int64) { r.mu.Lock(); r.res.Evaluations += n; r.mu.Unlock() }
func (r *Recorder) Count(name string, n int64) {
	r.mu.Lock()
	r.res.Counters[name] += n
	r.mu.Unlock()
}
func (r *Recorder) Get(name string) int64 {
	r.mu.Lock()
	defer r.mu.Unlock()
	return r.res.Counters[name]
}

// Distinct registers a non-trivial case/state by a canonical key (hashed).
func (r *Recorder) Distinct(key string) {
	h := sha256.Sum256([]byte(key))
	k := hex.EncodeToString(h[:8])
	r.mu.Lock()
	r.distinct[k] = struct{}{}
	r.mu.Unlock()
}

// DistinctByConstruction counts cases an enumeration produced that cannot repeat (no hash kept).
func (r *Recorder) DistinctByConstruction(n int64) { r.mu.Lock(); r.res.DistinctN += n; r.mu.Unlock() }

func (r *Recorder) Sample(v any) {
	r.mu.Lock()
	if len(r.res.Samples) < r.maxSamp {
		r.res.Samples = append(r.res.Samples, v)
	}
	r.mu.Unlock()
}

// Violation records a refutation. At most 3 witnesses per signature are kept per case.
func (r *Recorder) Violation(sig, msg string, witness any) {
	r.mu.Lock()
	defer r.mu.Unlock()
	r.vioSeen[sig]++
	if r.vioSeen[sig] > 3 {
		return
	}
	r.res.Violations = append(r.res.Violations, Violation{Signature: sig, Message: msg, Case: r.res.Case, Witness: witness})
}

func (r *Recorder) Violations() int {
	r.mu.Lock()
	defer r.mu.Unlock()
	return len(r.res.Violations)
}

func (r *Recorder) Inconclusive(why string) {
	r.mu.Lock()
	if r.res.Inconclusive == "" {
		r.res.Inconclusive = why
	}
	r.mu.Unlock()
}

func (r *Recorder) Result() CaseResult {
	r.mu.Lock()
	defer r.mu.Unlock()
	r.res.Distinct = r.res.Distinct[:0]
	for k := range r.distinct {
		r.res.Distinct = append(r.res.Distinct, k)
	}
	sort.Strings(r.res.Distinct)
	r.res.Done = true
	return r.res
}

func (r *Recorder) Close() {
	if r.opLog != nil {
		r.opLog.Close()
	}
}
