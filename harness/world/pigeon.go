package world

import (
	"bytes"
	"crypto/ecdsa"
	"fmt"
	"math/big"
	"strings"

	codectypes "github.com/cosmos/cosmos-sdk/codec/types"
	"github.com/ethereum/go-ethereum/accounts/abi"
	"github.com/ethereum/go-ethereum/common"
	ethtypes "github.com/ethereum/go-ethereum/core/types"

	consensustypes "github.com/palomachain/paloma/v2/x/consensus/types"
	evmtypes "github.com/palomachain/paloma/v2/x/evm/types"

	"verif/harness/chain"
)

// ---------------------------------------------------------------------------------------------
// remote EVM: building the transaction a relayer sends to compass for a queued message, the way
// pigeon does (public compass ABI), plus receipts and proofs.

var compassABI *abi.ABI

func CompassABIParsed() abi.ABI {
	if compassABI == nil {
		a, err := abi.JSON(strings.NewReader(chain.CompassABI()))
		if err != nil {
			panic(err)
		}
		compassABI = &a
	}
	return *compassABI
}

// ValsetOnChain returns the valset (addresses, powers, id) of a snapshot as the chain hands it to
// pigeons (the gRPC query pigeon uses).
func ValsetOnChain(c *chain.Chain, chainRef string, valsetID uint64) (*evmtypes.Valset, error) {
	res, err := c.App.EvmKeeper.GetValsetByID(c.Ctx(), &evmtypes.QueryGetValsetByIDRequest{ValsetID: valsetID, ChainReferenceID: chainRef})
	if err != nil {
		return nil, err
	}
	return res.Valset, nil
}

type feeArgs struct {
	RelayerFee            *big.Int
	CommunityFee          *big.Int
	SecurityFee           *big.Int
	FeePayerPalomaAddress [32]byte
}

func pad32(b []byte) [32]byte {
	var out [32]byte
	if len(b) > 32 {
		b = b[len(b)-32:]
	}
	copy(out[32-len(b):], b)
	return out
}

func feesOf(f *evmtypes.Fees, sender []byte) feeArgs {
	if f == nil {
		f = &evmtypes.Fees{RelayerFee: 100_000, CommunityFee: 100_000, SecurityFee: 100_000}
	}
	return feeArgs{RelayerFee: new(big.Int).SetUint64(f.RelayerFee), CommunityFee: new(big.Int).SetUint64(f.CommunityFee),
		SecurityFee: new(big.Int).SetUint64(f.SecurityFee), FeePayerPalomaAddress: pad32(sender)}
}

// CallData builds the compass call for a queued turnstone message using the first nSigs collected
// signatures (nSigs <= 0: all) and the valset the relayer claims to have used.
func CallData(c *chain.Chain, qm consensustypes.QueuedSignedMessageI, valset *evmtypes.Valset, nSigs int) ([]byte, error) {
	cm, err := qm.ConsensusMsg(c.App.AppCodec())
	if err != nil {
		return nil, err
	}
	m, ok := cm.(*evmtypes.Message)
	if !ok {
		return nil, fmt.Errorf("not a turnstone message: %T", cm)
	}
	sigs := qm.GetSignData()
	if nSigs > 0 && nSigs < len(sigs) {
		sigs = sigs[:nSigs]
	}
	cons := evmtypes.BuildCompassConsensus(valset, sigs)
	a := CompassABIParsed()
	relayer := common.HexToAddress(m.AssigneeRemoteAddress)
	switch act := m.Action.(type) {
	case *evmtypes.Message_UpdateValset:
		return a.Pack("update_valset", cons, evmtypes.TransformValsetToCompassValset(act.UpdateValset.Valset), relayer, new(big.Int).SetUint64(qm.GetGasEstimate()))
	case *evmtypes.Message_SubmitLogicCall:
		s := act.SubmitLogicCall
		return a.Pack("submit_logic_call", cons,
			evmtypes.CompassLogicCallArgs{LogicContractAddress: common.HexToAddress(s.HexContractAddress), Payload: s.Payload},
			feesOf(s.Fees, s.SenderAddress), new(big.Int).SetUint64(qm.GetId()), big.NewInt(s.Deadline), relayer)
	case *evmtypes.Message_UploadUserSmartContract:
		s := act.UploadUserSmartContract
		return a.Pack("deploy_contract", cons, common.HexToAddress(s.DeployerAddress), s.Bytecode,
			feesOf(s.Fees, s.SenderAddress), new(big.Int).SetUint64(qm.GetId()), big.NewInt(s.Deadline), relayer)
	case *evmtypes.Message_CompassHandover:
		s := act.CompassHandover
		var fw []evmtypes.CompassLogicCallArgs
		for _, f := range s.ForwardCallArgs {
			fw = append(fw, evmtypes.CompassLogicCallArgs{LogicContractAddress: common.HexToAddress(f.HexContractAddress), Payload: f.Payload})
		}
		return a.Pack("compass_update_batch", cons, fw, big.NewInt(s.Deadline), new(big.Int).SetUint64(qm.GetGasEstimate()), relayer)
	case *evmtypes.Message_UploadSmartContract:
		s := act.UploadSmartContract
		data := append([]byte{}, s.Bytecode...)
		if len(s.ConstructorInput) > 0 {
			cabi, err := abi.JSON(strings.NewReader(s.Abi))
			if err != nil {
				return nil, err
			}
			params, err := cabi.Constructor.Inputs.Unpack(s.ConstructorInput)
			if err != nil {
				return nil, err
			}
			in, err := cabi.Pack("", params...)
			if err != nil {
				return nil, err
			}
			data = append(data, in...)
		}
		return data, nil
	}
	return nil, fmt.Errorf("unknown action %T", m.Action)
}

// RemoteTx is a (simulated) transaction on a remote EVM chain with its receipt.
type RemoteTx struct {
	Tx      *ethtypes.Transaction
	Receipt *ethtypes.Receipt
}

func (t *RemoteTx) Hash() common.Hash { return t.Tx.Hash() }

// NewRemoteTx signs a transaction carrying data with the relayer's key.
func NewRemoteTx(key *ecdsa.PrivateKey, chainID uint64, nonce uint64, to *common.Address, data []byte, status uint64) (*RemoteTx, error) {
	tx := ethtypes.NewTx(&ethtypes.LegacyTx{Nonce: nonce, To: to, Gas: 3_000_000, GasPrice: big.NewInt(1_000_000_000), Value: big.NewInt(0), Data: data})
	signed, err := ethtypes.SignTx(tx, ethtypes.NewEIP155Signer(new(big.Int).SetUint64(chainID)), key)
	if err != nil {
		return nil, err
	}
	rc := &ethtypes.Receipt{Type: signed.Type(), Status: status, CumulativeGasUsed: 123456, Logs: []*ethtypes.Log{}, TxHash: signed.Hash(), GasUsed: 123456}
	return &RemoteTx{Tx: signed, Receipt: rc}, nil
}

// Proof packs the tx (+ receipt unless noReceipt) into the evidence validators submit.
func (t *RemoteTx) Proof(noReceipt bool) (*evmtypes.TxExecutedProof, error) {
	txb, err := t.Tx.MarshalBinary()
	if err != nil {
		return nil, err
	}
	p := &evmtypes.TxExecutedProof{SerializedTX: txb}
	if !noReceipt {
		rb, err := t.Receipt.MarshalBinary()
		if err != nil {
			return nil, err
		}
		p.SerializedReceipt = rb
	}
	return p, nil
}

func MsgEvidence(v *chain.Account, queue string, id uint64, proof interface {
	Reset()
	String() string
	ProtoMessage()
}) (*consensustypes.MsgAddEvidence, error) {
	anyv, err := codectypes.NewAnyWithValue(proof)
	if err != nil {
		return nil, err
	}
	return &consensustypes.MsgAddEvidence{Proof: anyv, MessageID: id, QueueTypeName: queue, Metadata: Meta(v)}, nil
}

func MsgPublicAccess(v *chain.Account, queue string, id uint64, data []byte, valsetID uint64) *consensustypes.MsgSetPublicAccessData {
	return &consensustypes.MsgSetPublicAccessData{MessageID: id, QueueTypeName: queue, Data: data, ValsetID: valsetID, Metadata: Meta(v)}
}

func MsgErrorData(v *chain.Account, queue string, id uint64, data []byte) *consensustypes.MsgSetErrorData {
	return &consensustypes.MsgSetErrorData{MessageID: id, QueueTypeName: queue, Data: data, Metadata: Meta(v)}
}

// QueueMsgs reads a consensus queue.
func QueueMsgs(c *chain.Chain, queue string) []consensustypes.QueuedSignedMessageI {
	msgs, _ := c.App.ConsensusKeeper.GetMessagesFromQueue(c.Ctx(), queue, 0)
	return msgs
}

// TurnstoneMsg unpacks the evm message of a queued item (nil if it is something else).
func TurnstoneMsg(c *chain.Chain, qm consensustypes.QueuedSignedMessageI) *evmtypes.Message {
	cm, err := qm.ConsensusMsg(c.App.AppCodec())
	if err != nil {
		return nil
	}
	m, _ := cm.(*evmtypes.Message)
	return m
}

// ReceiptHook, when set, may alter the receipt of the remote transaction DeliverMessage reports (hostile receipt
// contents: logs without topics, foreign events, oversized data). The evidence all validators hand in carries it.
var ReceiptHook func(*ethtypes.Receipt)

// Deliver drives ONE queued turnstone message through its whole life with honest pigeons:
// gas estimates by all validators -> election -> signatures by all -> relay by the assignee
// (public access data = tx hash) -> evidence by all -> attestation at the end of that block.
// Returns the remote tx that was used. Each phase takes one block.
func DeliverMessage(c *chain.Chain, vals []*chain.Account, chainRef string, chainID uint64, id uint64, status uint64) (*RemoteTx, error) {
	queue := TurnstoneQueue(chainRef)
	find := func() consensustypes.QueuedSignedMessageI {
		for _, qm := range QueueMsgs(c, queue) {
			if qm.GetId() == id {
				return qm
			}
		}
		return nil
	}
	qm := find()
	if qm == nil {
		return nil, fmt.Errorf("message %d not in queue %s", id, queue)
	}
	block := func() error {
		br := c.NextBlock()
		if br.Panic != "" || br.Err != nil {
			return fmt.Errorf("block failed: %s %v", br.Panic, br.Err)
		}
		for i, r := range br.Txs {
			if !r.OK() {
				return fmt.Errorf("tx %d failed: %s", i, r.Log)
			}
		}
		return nil
	}
	if qm.GetRequireGasEstimation() && qm.GetGasEstimate() == 0 {
		for _, v := range vals {
			if err := c.QueueTx(v, 0, MsgEstimate(v, queue, id, 300_000)); err != nil {
				return nil, err
			}
		}
		if err := block(); err != nil {
			return nil, err
		}
	}
	for _, v := range vals {
		sm, err := MsgSign(c, v, queue, id)
		if err != nil {
			return nil, err
		}
		if err := c.QueueTx(v, 0, sm); err != nil {
			return nil, err
		}
	}
	if err := block(); err != nil {
		return nil, err
	}
	qm = find()
	if qm == nil {
		return nil, fmt.Errorf("message %d vanished", id)
	}
	m := TurnstoneMsg(c, qm)
	var relayer *chain.Account
	for _, v := range vals {
		if v.ValBech() == m.Assignee {
			relayer = v
		}
	}
	if relayer == nil {
		return nil, fmt.Errorf("assignee %s unknown", m.Assignee)
	}
	// the valset compass currently knows: the latest snapshot live on the chain (or the current one)
	valsetID := uint64(0)
	if s, err := c.App.ValsetKeeper.GetLatestSnapshotOnChain(c.Ctx(), chainRef); err == nil && s != nil {
		valsetID = s.Id
	} else if s, err := c.App.ValsetKeeper.GetCurrentSnapshot(c.Ctx()); err == nil && s != nil {
		valsetID = s.Id
	}
	vs, err := ValsetOnChain(c, chainRef, valsetID)
	if err != nil {
		return nil, err
	}
	data, err := CallData(c, qm, vs, 0)
	if err != nil {
		return nil, err
	}
	ci, _ := c.App.EvmKeeper.GetChainInfo(c.Ctx(), chainRef)
	to := common.HexToAddress(ci.SmartContractAddr)
	rtx, err := NewRemoteTx(relayer.EthKey, chainID, uint64(id), &to, data, status)
	if err != nil {
		return nil, err
	}
	if err := c.QueueTx(relayer, 0, MsgPublicAccess(relayer, queue, id, rtx.Hash().Bytes(), valsetID)); err != nil {
		return nil, err
	}
	if err := block(); err != nil {
		return nil, err
	}
	if ReceiptHook != nil {
		ReceiptHook(rtx.Receipt)
	}
	proof, err := rtx.Proof(false)
	if err != nil {
		return nil, err
	}
	for _, v := range vals {
		ev, err := MsgEvidence(v, queue, id, proof)
		if err != nil {
			return nil, err
		}
		if err := c.QueueTx(v, 0, ev); err != nil {
			return nil, err
		}
	}
	if err := block(); err != nil {
		return nil, err
	}
	return rtx, nil
}

var _ = bytes.Equal
