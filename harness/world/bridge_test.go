package world

import (
	"testing"

	sdk "github.com/cosmos/cosmos-sdk/types"
	"verif/harness/chain"
)

func TestBridgeWorld(t *testing.T) {
	w, err := NewBridgeWorld(BridgeOpts{Prefix: "bt", Stakes: []int64{40e6, 30e6, 20e6, 10e6}, NUsers: 3, Chains: []string{"eth-main", "bnb-main"},
		FactorySubs: []string{"tka"}, MapUgrain: true, CaptureLog: true})
	if err != nil {
		t.Fatal(err)
	}
	c := w.C
	defer c.Close()
	t.Logf("height %d tokens %v", c.Height, w.Tokens)
	u := w.Users[1]
	tk := w.Tokens[0]
	r := c.Deliver(u, MsgSend(u, tk.ChainRef, "0x00000000000000000000000000000000000000aa", sdk.NewInt64Coin(tk.Denom, 1000)))
	t.Logf("send: %d %s", r.Code, r.Log)
	id, _ := chain.EventAttr(r.Events, "EventOutgoingTxId", "tx_id")
	t.Logf("tx id %s", id)
	for c.Height%50 != 0 {
		c.Skip(1)
	}
	bs, _ := c.App.SkywayKeeper.GetOutgoingTxBatches(c.Ctx())
	t.Logf("h=%d batches=%d", c.Height, len(bs))
	for _, b := range bs {
		t.Logf("batch nonce=%d token=%s txs=%d timeout=%d assignee=%s", b.BatchNonce, b.TokenContract.GetAddress().Hex(), len(b.Transactions), b.BatchTimeout, b.Assignee)
	}
	for k, v := range c.Log.Distinct() {
		if k[0] == 'E' || k[0] == 'W' {
			t.Logf("%4d %s", v, k)
		}
	}
}
