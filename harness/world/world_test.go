package world

import (
	"testing"

	sdk "github.com/cosmos/cosmos-sdk/types"

	"verif/harness/chain"
)

func TestBootstrap(t *testing.T) {
	vals := chain.DefaultValidators("wt", []int64{40_000_000, 30_000_000, 20_000_000, 10_000_000})
	u1 := chain.NewAccount("u1", "wt/u1")
	c := chain.New(chain.Config{Validators: vals, Users: map[*chain.Account]sdk.Coins{u1: sdk.NewCoins(sdk.NewInt64Coin(chain.Denom, 1000000))},
		EVMChains: []chain.EVMChainSpec{{RefID: "eth-main", ChainID: 1}, {RefID: "bnb-main", ChainID: 56}}, WithCompass: true, CaptureLog: true})
	defer c.Close()
	c.Skip(1)
	if err := Bootstrap(c, Accts(vals), []string{"eth-main", "bnb-main"}); err != nil {
		t.Fatal(err)
	}
	for _, ch := range []string{"eth-main", "bnb-main"} {
		if err := ActivateChain(c, ch, "0x00000000000000000000000000000000000c0de1", []byte("compass-"+ch)); err != nil {
			t.Fatal(err)
		}
	}
	c.Skip(60)
	snap, _ := c.App.ValsetKeeper.GetCurrentSnapshot(c.Ctx())
	t.Logf("snapshot id=%d vals=%d chains=%v", snap.Id, len(snap.Validators), snap.Chains)
	for _, ch := range []string{"eth-main", "bnb-main"} {
		msgs, err := c.App.ConsensusKeeper.GetMessagesFromQueue(c.Ctx(), TurnstoneQueue(ch), 0)
		t.Logf("%s queue: %d msgs err=%v", ch, len(msgs), err)
		for _, m := range msgs {
			cm, _ := m.ConsensusMsg(c.App.AppCodec())
			t.Logf("  id=%d %T reqGas=%v", m.GetId(), cm, m.GetRequireGasEstimation())
		}
	}
	for k, v := range c.Log.Distinct() {
		if k[0] == 'E' || k[0] == 'W' {
			t.Logf("%4d %s", v, k)
		}
	}
}

func TestDeliverValset(t *testing.T) {
	vals := chain.DefaultValidators("dv", []int64{40_000_000, 30_000_000, 20_000_000, 10_000_000})
	c := chain.New(chain.Config{Validators: vals, EVMChains: []chain.EVMChainSpec{{RefID: "eth-main", ChainID: 1}}, WithCompass: true, CaptureLog: true})
	defer c.Close()
	c.Skip(1)
	if err := Bootstrap(c, Accts(vals), []string{"eth-main"}); err != nil {
		t.Fatal(err)
	}
	if err := ActivateChain(c, "eth-main", "0x00000000000000000000000000000000000c0de1", []byte("compass-1")); err != nil {
		t.Fatal(err)
	}
	snap0, err := BuildSnapshot(c)
	if err != nil {
		t.Fatal(err)
	}
	c.Skip(1)
	if err := c.App.EvmKeeper.PublishSnapshotToAllChains(c.Ctx(), snap0, true); err != nil {
		t.Fatal(err)
	}
	msgs := QueueMsgs(c, TurnstoneQueue("eth-main"))
	if len(msgs) != 1 {
		t.Fatalf("want 1 msg, have %d", len(msgs))
	}
	rtx, err := DeliverMessage(c, Accts(vals), "eth-main", 1, msgs[0].GetId(), 1)
	if err != nil {
		t.Fatal(err)
	}
	t.Logf("tx %s", rtx.Hash())
	msgs = QueueMsgs(c, TurnstoneQueue("eth-main"))
	snap, _ := c.App.ValsetKeeper.GetCurrentSnapshot(c.Ctx())
	t.Logf("queue now %d msgs; snapshot %d chains %v", len(msgs), snap.Id, snap.Chains)
	for k, v := range c.Log.Distinct() {
		if k[0] == 'E' || k[0] == 'W' {
			t.Logf("%4d %s", v, k)
		}
	}
	if len(snap.Chains) != 1 {
		t.Fatalf("snapshot not marked live on chain")
	}
}
