package world

import (
	"testing"

	sdk "github.com/cosmos/cosmos-sdk/types"

	"verif/harness/chain"
)

func TestBootstrap(t *testing.T) {
	vals := chain.DefaultValidators("wt", []int64{40_000_000, 30_000_000, 20_000_000, 10_000_000})
	u1 := chain.NewAccount("u1", "wt/u1")
	c := chain.New(chain.Config{Validators: vals, Users: map[*chain.Account]sdk.Coins{u1: sdk.NewCoins(sdk.NewInt64Coin(chain.Denom, 1000000))},
		EVMChains: []chain.EVMChainSpec{{RefID: "eth-main", ChainID: 1}, {RefID: "bnb-main", ChainID: 56}}, WithCompass: true, CaptureLog: true})
	defer c.Close()
	c.Skip(1)
	if err := Bootstrap(c, Accts(vals), []string{"eth-main", "bnb-main"}); err != nil {
		t.Fatal(err)
	}
	for _, ch := range []string{"eth-main", "bnb-main"} {
		if err := ActivateChain(c, ch, "0x00000000000000000000000000000000000c0de1", []byte("compass-"+ch)); err != nil {
			t.Fatal(err)
		}
	}
	c.Skip(60)
	snap, _ := c.App.ValsetKeeper.GetCurrentSnapshot(c.Ctx())
	t.Logf("snapshot id=%d vals=%d chains=%v", snap.Id, len(snap.Validators), snap.Chains)
	for _, ch := range []string{"eth-main", "bnb-main"} {
		msgs, err := c.App.ConsensusKeeper.GetMessagesFromQueue(c.Ctx(), TurnstoneQueue(ch), 0)
		t.Logf("%s queue: %d msgs err=%v", ch, len(msgs), err)
		for _, m := range msgs {
			cm, _ := m.ConsensusMsg(c.App.AppCodec())
			t.Logf("  id=%d %T reqGas=%v", m.GetId(), cm, m.GetRequireGasEstimation())
		}
	}
	for k, v := range c.Log.Distinct() {
		if k[0] == 'E' || k[0] == 'W' {
			t.Logf("%4d %s", v, k)
		}
	}
}
