// Package world simulates what lives outside the chain: pigeons (one relayer per validator) and
// helpers to bring the chain into states a real network reaches (registered external accounts,
// keep-alives, relayer fees, activated EVM chains, snapshots).
package world

import (
	"crypto/ecdsa"
	"fmt"

	sdkmath "cosmossdk.io/math"
	sdk "github.com/cosmos/cosmos-sdk/types"
	"github.com/ethereum/go-ethereum/common"
	ethcrypto "github.com/ethereum/go-ethereum/crypto"

	consensustypes "github.com/palomachain/paloma/v2/x/consensus/types"
	evmkeeper "github.com/palomachain/paloma/v2/x/evm/keeper"
	treasurytypes "github.com/palomachain/paloma/v2/x/treasury/types"
	valsettypes "github.com/palomachain/paloma/v2/x/valset/types"

	"verif/harness/chain"
)

const PigeonVersion = "v2.4.0"

func Meta(a *chain.Account) valsettypes.MsgMetadata {
	return valsettypes.MsgMetadata{Creator: a.Bech, Signers: []string{a.Bech}}
}

// MetaBy: creator c, signed by s (needs a fee grant c->s to pass the ante decorator).
func MetaBy(creator, signer *chain.Account) valsettypes.MsgMetadata {
	return valsettypes.MsgMetadata{Creator: creator.Bech, Signers: []string{signer.Bech}}
}

func ExtInfo(v *chain.Account, chainRef string, traits ...string) *valsettypes.ExternalChainInfo {
	addr := ethcrypto.PubkeyToAddress(v.EthKey.PublicKey)
	return &valsettypes.ExternalChainInfo{
		ChainType:        "evm",
		ChainReferenceID: chainRef,
		Address:          addr.Hex(),
		Pubkey:           addr.Bytes(),
		Traits:           traits,
	}
}

func MsgRegister(v *chain.Account, chains []string, traits ...string) *valsettypes.MsgAddExternalChainInfoForValidator {
	m := &valsettypes.MsgAddExternalChainInfoForValidator{Metadata: Meta(v)}
	for _, c := range chains {
		m.ChainInfos = append(m.ChainInfos, ExtInfo(v, c, traits...))
	}
	return m
}

func MsgKeepAlive(v *chain.Account, version string) *valsettypes.MsgKeepAlive {
	return &valsettypes.MsgKeepAlive{Metadata: Meta(v), PigeonVersion: version}
}

func MsgRelayerFee(v *chain.Account, fees map[string]string) *treasurytypes.MsgUpsertRelayerFee {
	fs := &treasurytypes.RelayerFeeSetting{ValAddress: v.ValBech()}
	// deterministic order
	var keys []string
	for k := range fees {
		keys = append(keys, k)
	}
	sortStrings(keys)
	for _, k := range keys {
		fs.Fees = append(fs.Fees, treasurytypes.RelayerFeeSetting_FeeSetting{
			Multiplicator:    sdkmath.LegacyMustNewDecFromStr(fees[k]),
			ChainReferenceId: k,
		})
	}
	return &treasurytypes.MsgUpsertRelayerFee{Metadata: Meta(v), FeeSetting: fs}
}

func sortStrings(s []string) {
	for i := 1; i < len(s); i++ {
		for j := i; j > 0 && s[j] < s[j-1]; j-- {
			s[j], s[j-1] = s[j-1], s[j]
		}
	}
}

// Bootstrap: every validator registers its external accounts on all chains, sends a keep-alive
// and sets a relayer fee (one block, real txs). Returns an error text if a tx failed.
func Bootstrap(c *chain.Chain, vals []*chain.Account, chains []string) error {
	return BootstrapFees(c, vals, chains, chains)
}

// BootstrapFees is Bootstrap with relayer fees set only for feeChains (a chain whose validators
// have not set a relayer fee yet has no eligible relayer).
func BootstrapFees(c *chain.Chain, vals []*chain.Account, chains, feeChains []string) error {
	for _, v := range vals {
		if err := c.QueueTx(v, 0, MsgRegister(v, chains)); err != nil {
			return err
		}
		if err := c.QueueTx(v, 1, MsgKeepAlive(v, PigeonVersion)); err != nil {
			return err
		}
		fees := map[string]string{}
		for _, ch := range feeChains {
			fees[ch] = "1.1"
		}
		if err := c.QueueTx(v, 2, MsgRelayerFee(v, fees)); err != nil {
			return err
		}
	}
	br := c.NextBlock()
	if br.Panic != "" || br.Err != nil {
		return fmt.Errorf("bootstrap block failed: %s %v", br.Panic, br.Err)
	}
	for i, r := range br.Txs {
		if !r.OK() {
			return fmt.Errorf("bootstrap tx %d failed: %s", i, r.Log)
		}
	}
	return nil
}

// ActivateChain marks a chain as active with the latest compass contract, through the exported
// keeper function the attested deployment flow itself ends in (ActivateChainReferenceID).
// Written straight to the working state at the current block boundary.
func ActivateChain(c *chain.Chain, chainRef, compassAddr string, uniqueID []byte) error {
	ctx := c.Ctx()
	sc, err := c.App.EvmKeeper.GetLastCompassContract(ctx)
	if err != nil {
		return err
	}
	return c.App.EvmKeeper.ActivateChainReferenceID(ctx, chainRef, sc, compassAddr, uniqueID)
}

// BuildSnapshot triggers a snapshot build at the current boundary (what valset's end-blocker does
// at heights % 50 == 0).
func BuildSnapshot(c *chain.Chain) (*valsettypes.Snapshot, error) {
	return c.App.ValsetKeeper.TriggerSnapshotBuild(c.Ctx())
}

// TurnstoneQueue is the name of the evm turnstone-message queue of a chain.
func TurnstoneQueue(chainRef string) string {
	return consensustypes.Queue("evm-turnstone-message", "evm", chainRef)
}

func QueueName(sub, chainRef string) string { return consensustypes.Queue(sub, "evm", chainRef) }

// EthSign signs bytes the way pigeon does: keccak256("\x19Ethereum Signed Message:\n32" || bz).
func EthSign(key *ecdsa.PrivateKey, bz []byte) []byte {
	h := ethcrypto.Keccak256(append([]byte(evmkeeper.SignaturePrefix), bz...))
	sig, err := ethcrypto.Sign(h, key)
	if err != nil {
		panic(err)
	}
	return sig
}

// EthRecover returns the address that signed bz with the pigeon scheme (independent check).
func EthRecover(bz, sig []byte) (common.Address, bool) {
	h := ethcrypto.Keccak256(append([]byte("\x19Ethereum Signed Message:\n32"), bz...))
	if len(sig) != 65 {
		return common.Address{}, false
	}
	s := append([]byte{}, sig...)
	if s[64] >= 27 {
		s[64] -= 27
	}
	pk, err := ethcrypto.SigToPub(h, s)
	if err != nil {
		return common.Address{}, false
	}
	return ethcrypto.PubkeyToAddress(*pk), true
}

// MsgSign builds the signature message of validator v for queued messages.
func MsgSign(c *chain.Chain, v *chain.Account, queue string, ids ...uint64) (*consensustypes.MsgAddMessagesSignatures, error) {
	m := &consensustypes.MsgAddMessagesSignatures{Metadata: Meta(v)}
	msgs, err := c.App.ConsensusKeeper.GetMessagesFromQueue(c.Ctx(), queue, 0)
	if err != nil {
		return nil, err
	}
	want := map[uint64]bool{}
	for _, id := range ids {
		want[id] = true
	}
	for _, qm := range msgs {
		if len(ids) > 0 && !want[qm.GetId()] {
			continue
		}
		bz, err := qm.GetBytesToSign(c.App.AppCodec())
		if err != nil {
			return nil, err
		}
		m.SignedMessages = append(m.SignedMessages, &consensustypes.ConsensusMessageSignature{
			Id: qm.GetId(), QueueTypeName: queue, Signature: EthSign(v.EthKey, bz), SignedByAddress: v.EthAddr(),
		})
	}
	return m, nil
}

func MsgEstimate(v *chain.Account, queue string, id, value uint64) *consensustypes.MsgAddMessageGasEstimates {
	return &consensustypes.MsgAddMessageGasEstimates{Metadata: Meta(v), Estimates: []*consensustypes.MsgAddMessageGasEstimates_GasEstimate{
		{MsgId: id, QueueTypeName: queue, Value: value, EstimatedByAddress: v.EthAddr()},
	}}
}

// Accts extracts the accounts of validator specs.
func Accts(vs []chain.ValSpec) []*chain.Account {
	var out []*chain.Account
	for _, v := range vs {
		out = append(out, v.Acct)
	}
	return out
}

var _ = sdk.AccAddress{}
