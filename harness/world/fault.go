//go:build verif

package world

import (
	"context"
	"fmt"
	"sync"

	sdk "github.com/cosmos/cosmos-sdk/types"

	evmtypes "github.com/palomachain/paloma/v2/x/evm/types"
	skywaykeeper "github.com/palomachain/paloma/v2/x/skyway/keeper"
	skywaytypes "github.com/palomachain/paloma/v2/x/skyway/types"
)

// FaultPlan drives the fault-injecting proxies installed around the skyway keeper's collaborators
// (bank keeper, EVM keeper) through the build-tag guarded hook in skyway NewKeeper. One app per
// process => one process-global plan.
type FaultPlan struct {
	mu     sync.Mutex
	armed  bool
	failAt int
	count  int
	calls  []string
	Failed string // name of the call that was failed (empty if none)
}

var Plan = &FaultPlan{}

// Reset disarms the plan and clears counters.
func (p *FaultPlan) Reset() {
	p.mu.Lock()
	p.armed, p.failAt, p.count, p.calls, p.Failed = false, 0, 0, nil, ""
	p.mu.Unlock()
}

// CountOnly: count fault-point calls without failing any.
func (p *FaultPlan) CountOnly() { p.Reset() }

// FailKth arms the plan to fail exactly the k-th (1-based) fault-point call from now on.
func (p *FaultPlan) FailKth(k int) {
	p.Reset()
	p.mu.Lock()
	p.armed, p.failAt = true, k
	p.mu.Unlock()
}

func (p *FaultPlan) Calls() []string {
	p.mu.Lock()
	defer p.mu.Unlock()
	return append([]string(nil), p.calls...)
}

func (p *FaultPlan) hit(name string) error {
	p.mu.Lock()
	defer p.mu.Unlock()
	p.count++
	p.calls = append(p.calls, name)
	if p.armed && p.count == p.failAt {
		p.Failed = name
		return fmt.Errorf("verif: injected fault at %s (call %d)", name, p.count)
	}
	return nil
}

var faultsInstalled bool

// InstallSkywayFaults must be called before chain.New. The proxies are transparent while the plan
// is not armed.
func InstallSkywayFaults() {
	faultsInstalled = true
	skywaykeeper.VerifInstrument = func(k *skywaykeeper.Keeper) {
		k.VerifSetBankKeeper(&bankProxy{BankKeeper: k.VerifBankKeeper()})
		k.EVMKeeper = newEvmProxy(k.EVMKeeper, k.EVMKeeper.PickValidatorForMessage)
	}
}

type bankProxy struct{ skywaytypes.BankKeeper }

func (b *bankProxy) SendCoinsFromModuleToAccount(ctx context.Context, m string, r sdk.AccAddress, amt sdk.Coins) error {
	if err := Plan.hit("bank.SendCoinsFromModuleToAccount"); err != nil {
		return err
	}
	return b.BankKeeper.SendCoinsFromModuleToAccount(ctx, m, r, amt)
}

func (b *bankProxy) SendCoinsFromAccountToModule(ctx context.Context, s sdk.AccAddress, m string, amt sdk.Coins) error {
	if err := Plan.hit("bank.SendCoinsFromAccountToModule"); err != nil {
		return err
	}
	return b.BankKeeper.SendCoinsFromAccountToModule(ctx, s, m, amt)
}

func (b *bankProxy) SendCoinsFromModuleToModule(ctx context.Context, s, r string, amt sdk.Coins) error {
	if err := Plan.hit("bank.SendCoinsFromModuleToModule"); err != nil {
		return err
	}
	return b.BankKeeper.SendCoinsFromModuleToModule(ctx, s, r, amt)
}

func (b *bankProxy) MintCoins(ctx context.Context, n string, amt sdk.Coins) error {
	if err := Plan.hit("bank.MintCoins"); err != nil {
		return err
	}
	return b.BankKeeper.MintCoins(ctx, n, amt)
}

func (b *bankProxy) BurnCoins(ctx context.Context, n string, amt sdk.Coins) error {
	if err := Plan.hit("bank.BurnCoins"); err != nil {
		return err
	}
	return b.BankKeeper.BurnCoins(ctx, n, amt)
}

// evmProxy is generic in the job-requirements parameter type only because that type lives in an
// internal package of the module under test and cannot be named here; it is inferred from the
// method value handed to newEvmProxy.
type evmProxy[R any] struct {
	skywaytypes.EVMKeeper
	pick func(context.Context, string, R) (string, string, error)
}

func newEvmProxy[R any](inner skywaytypes.EVMKeeper, pick func(context.Context, string, R) (string, string, error)) *evmProxy[R] {
	return &evmProxy[R]{EVMKeeper: inner, pick: pick}
}

func (e *evmProxy[R]) GetChainInfo(ctx context.Context, id string) (*evmtypes.ChainInfo, error) {
	if err := Plan.hit("evm.GetChainInfo"); err != nil {
		return nil, err
	}
	return e.EVMKeeper.GetChainInfo(ctx, id)
}

func (e *evmProxy[R]) PickValidatorForMessage(ctx context.Context, id string, req R) (string, string, error) {
	if err := Plan.hit("evm.PickValidatorForMessage"); err != nil {
		return "", "", err
	}
	return e.pick(ctx, id, req)
}

func (e *evmProxy[R]) GetEthAddressByValidator(ctx context.Context, v sdk.ValAddress, id string) (*skywaytypes.EthAddress, bool, error) {
	if err := Plan.hit("evm.GetEthAddressByValidator"); err != nil {
		return nil, false, err
	}
	return e.EVMKeeper.GetEthAddressByValidator(ctx, v, id)
}

func (e *evmProxy[R]) GetValidatorAddressByEthAddress(ctx context.Context, a skywaytypes.EthAddress, id string) (sdk.ValAddress, bool, error) {
	if err := Plan.hit("evm.GetValidatorAddressByEthAddress"); err != nil {
		return nil, false, err
	}
	return e.EVMKeeper.GetValidatorAddressByEthAddress(ctx, a, id)
}
