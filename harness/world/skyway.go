package world

import (
	"encoding/hex"
	"fmt"

	sdkmath "cosmossdk.io/math"
	sdk "github.com/cosmos/cosmos-sdk/types"

	skywaytypes "github.com/palomachain/paloma/v2/x/skyway/types"
	tftypes "github.com/palomachain/paloma/v2/x/tokenfactory/types"

	"verif/harness/chain"
)

// Token is a bridged token: a denom mapped to an ERC-20 address on a chain.
type Token struct {
	Denom    string
	ChainRef string
	ERC20    string
}

// FactoryDenom is the denom a creator gets for a subdenom.
func FactoryDenom(creator *chain.Account, sub string) string {
	return fmt.Sprintf("factory/%s/%s", creator.Bech, sub)
}

func MsgCreateDenom(a *chain.Account, sub string) *tftypes.MsgCreateDenom {
	return &tftypes.MsgCreateDenom{Subdenom: sub, Metadata: Meta(a)}
}

func MsgMint(a *chain.Account, denom string, amt sdkmath.Int) *tftypes.MsgMint {
	return &tftypes.MsgMint{Amount: sdk.NewCoin(denom, amt), Metadata: Meta(a)}
}

func MsgMapERC20(admin *chain.Account, denom, chainRef, erc20 string) *skywaytypes.MsgSetERC20ToTokenDenom {
	return &skywaytypes.MsgSetERC20ToTokenDenom{Metadata: Meta(admin), Denom: denom, ChainReferenceId: chainRef, Erc20: erc20}
}

// GovMeta: metadata of a message authored by the governance module account.
func GovMeta() (m struct{ Creator string }) { m.Creator = chain.GovAuthority(); return }

func MsgMapERC20Gov(denom, chainRef, erc20 string) *skywaytypes.MsgSetERC20MappingProposal {
	auth := chain.GovAuthority()
	m := &skywaytypes.MsgSetERC20MappingProposal{Authority: auth,
		Mappings: []skywaytypes.MsgSetERC20MappingProposal_ERC20ToDenomMapping{{ChainReferenceId: chainRef, Erc20: erc20, Denom: denom}}}
	m.Metadata.Creator = auth
	m.Metadata.Signers = []string{auth}
	return m
}

func MsgSend(u *chain.Account, chainRef, ethDest string, coin sdk.Coin) *skywaytypes.MsgSendToRemote {
	return &skywaytypes.MsgSendToRemote{EthDest: ethDest, Amount: coin, ChainReferenceId: chainRef, Metadata: Meta(u)}
}

func MsgCancel(u *chain.Account, id uint64) *skywaytypes.MsgCancelSendToRemote {
	return &skywaytypes.MsgCancelSendToRemote{TransactionId: id, Metadata: Meta(u)}
}

func MsgDepositClaim(v *chain.Account, chainRef, compassID string, nonce, ethHeight uint64, erc20 string, amt sdkmath.Int, ethSender, receiver string) *skywaytypes.MsgSendToPalomaClaim {
	return &skywaytypes.MsgSendToPalomaClaim{EventNonce: nonce, SkywayNonce: nonce, EthBlockHeight: ethHeight, TokenContract: erc20,
		Amount: amt, EthereumSender: ethSender, PalomaReceiver: receiver, Orchestrator: v.Bech, ChainReferenceId: chainRef,
		CompassId: compassID, Metadata: Meta(v)}
}

func MsgBatchClaim(v *chain.Account, chainRef, compassID string, nonce, ethHeight, batchNonce uint64, erc20 string) *skywaytypes.MsgBatchSendToRemoteClaim {
	return &skywaytypes.MsgBatchSendToRemoteClaim{EventNonce: nonce, SkywayNonce: nonce, EthBlockHeight: ethHeight, BatchNonce: batchNonce,
		TokenContract: erc20, ChainReferenceId: chainRef, Orchestrator: v.Bech, CompassId: compassID, Metadata: Meta(v)}
}

func MsgSaleClaim(v *chain.Account, chainRef, compassID string, nonce, ethHeight uint64, client string, amt sdkmath.Int, contract string) *skywaytypes.MsgLightNodeSaleClaim {
	return &skywaytypes.MsgLightNodeSaleClaim{EventNonce: nonce, SkywayNonce: nonce, EthBlockHeight: ethHeight, Orchestrator: v.Bech,
		ChainReferenceId: chainRef, ClientAddress: client, Amount: amt, SmartContractAddress: contract, CompassId: compassID, Metadata: Meta(v)}
}

func MsgBatchEstimate(v *chain.Account, batchNonce uint64, erc20 string, estimate uint64) *skywaytypes.MsgEstimateBatchGas {
	return &skywaytypes.MsgEstimateBatchGas{Metadata: Meta(v), Nonce: batchNonce, TokenContract: erc20, EthSigner: v.EthAddr(), Estimate: estimate}
}

// MsgBatchConfirm signs the batch's CURRENT checkpoint (read from state) with v's eth key.
func MsgBatchConfirm(c *chain.Chain, v *chain.Account, batch skywaytypes.InternalOutgoingTxBatch) (*skywaytypes.MsgConfirmBatch, error) {
	ci, err := c.App.EvmKeeper.GetChainInfo(c.Ctx(), batch.ChainReferenceID)
	if err != nil {
		return nil, err
	}
	cp, err := batch.GetCheckpoint(string(ci.SmartContractUniqueID))
	if err != nil {
		return nil, err
	}
	return MsgBatchConfirmOver(v, batch, cp), nil
}

func MsgBatchConfirmOver(v *chain.Account, batch skywaytypes.InternalOutgoingTxBatch, checkpoint []byte) *skywaytypes.MsgConfirmBatch {
	sig := EthSign(v.EthKey, checkpoint)
	return &skywaytypes.MsgConfirmBatch{Nonce: batch.BatchNonce, TokenContract: batch.TokenContract.GetAddress().Hex(), EthSigner: v.EthAddr(),
		Orchestrator: v.Bech, Signature: hex.EncodeToString(sig), Metadata: Meta(v)}
}
