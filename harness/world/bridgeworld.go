package world

import (
	"fmt"
	"time"

	sdkmath "cosmossdk.io/math"
	sdk "github.com/cosmos/cosmos-sdk/types"
	banktypes "github.com/cosmos/cosmos-sdk/x/bank/types"

	skywaytypes "github.com/palomachain/paloma/v2/x/skyway/types"

	"verif/harness/chain"
)

// BridgeWorld is a running chain with pigeons registered, EVM chains activated and bridged tokens
// set up - the state a live Paloma network with a working Skyway bridge is in.
type BridgeWorld struct {
	C       *chain.Chain
	Vals    []*chain.Account
	Users   []*chain.Account
	Chains  []string
	Tokens  []Token // bridged tokens (denom x chain)
	Compass map[string]string
}

type BridgeOpts struct {
	Prefix      string
	Stakes      []int64
	NUsers      int
	Chains      []string
	FactorySubs []string // factory sub-denoms created by user 0 and mapped on every chain
	MapUgrain   bool     // map ugrain on every chain (governance mapping)
	SameERC20   bool     // use the SAME ERC-20 address for a denom on every chain (CREATE2-style deployments)
	UserFunds   int64    // ugrain per user
	TokenFunds  int64    // factory tokens per user
	CaptureLog  bool
	UseLevelDB  bool
	Voting      time.Duration
	NoFeeFor    string // validators have no relayer fee on record for this chain after bring-up
	StartTime   time.Time // genesis time (zero: the harness default 2025-01-01T00:00:00Z)
}

func ERC20Addr(i int) string { return fmt.Sprintf("0x%040x", 0xE2C0000+i) }

func NewBridgeWorld(o BridgeOpts) (*BridgeWorld, error) {
	if o.UserFunds == 0 {
		o.UserFunds = 1_000_000_000_000
	}
	if o.TokenFunds == 0 {
		o.TokenFunds = 1_000_000_000
	}
	vals := chain.DefaultValidators(o.Prefix, o.Stakes)
	w := &BridgeWorld{Vals: Accts(vals), Chains: o.Chains, Compass: map[string]string{}}
	users := map[*chain.Account]sdk.Coins{}
	for i := 0; i < o.NUsers; i++ {
		u := chain.NewAccount(fmt.Sprintf("user%d", i), fmt.Sprintf("%s/user/%d", o.Prefix, i))
		w.Users = append(w.Users, u)
		users[u] = sdk.NewCoins(sdk.NewInt64Coin(chain.Denom, o.UserFunds))
	}
	var evms []chain.EVMChainSpec
	for i, ch := range o.Chains {
		evms = append(evms, chain.EVMChainSpec{RefID: ch, ChainID: uint64(1000 + i)})
	}
	c := chain.New(chain.Config{Validators: vals, Users: users, EVMChains: evms, WithCompass: true, CaptureLog: o.CaptureLog,
		UseLevelDB: o.UseLevelDB, VotingPeriod: o.Voting, StartTime: o.StartTime})
	w.C = c
	if br := c.Skip(1); br.Panic != "" || br.Err != nil {
		return w, fmt.Errorf("first block: %s %v", br.Panic, br.Err)
	}
	var feeChains []string
	for _, ch := range o.Chains {
		if ch != o.NoFeeFor {
			feeChains = append(feeChains, ch)
		}
	}
	if err := BootstrapFees(c, w.Vals, o.Chains, feeChains); err != nil {
		return w, err
	}
	for i, ch := range o.Chains {
		id := fmt.Sprintf("compass-%s-1", ch)
		w.Compass[ch] = id
		if err := ActivateChain(c, ch, fmt.Sprintf("0x%040x", 0xC0DE000+i), []byte(id)); err != nil {
			return w, err
		}
	}
	// tokens
	n := 0
	if len(o.FactorySubs) > 0 {
		u0 := w.Users[0]
		for _, sub := range o.FactorySubs {
			denom := FactoryDenom(u0, sub)
			if r := c.Deliver(u0, MsgCreateDenom(u0, sub)); !r.OK() {
				return w, fmt.Errorf("create denom: %s", r.Log)
			}
			total := sdkmath.NewInt(o.TokenFunds).MulRaw(int64(len(w.Users)))
			if r := c.Deliver(u0, MsgMint(u0, denom, total)); !r.OK() {
				return w, fmt.Errorf("mint: %s", r.Log)
			}
			for _, u := range w.Users[1:] {
				if r := c.Deliver(u0, &banktypes.MsgSend{FromAddress: u0.Bech, ToAddress: u.Bech, Amount: sdk.NewCoins(sdk.NewInt64Coin(denom, o.TokenFunds))}); !r.OK() {
					return w, fmt.Errorf("distribute: %s", r.Log)
				}
			}
			base := n
			for ci, ch := range o.Chains {
				erc := ERC20Addr(n)
				if o.SameERC20 {
					erc = ERC20Addr(base)
				}
				_ = ci
				n++
				if r := c.Deliver(u0, MsgMapERC20(u0, denom, ch, erc)); !r.OK() {
					return w, fmt.Errorf("map erc20: %s", r.Log)
				}
				w.Tokens = append(w.Tokens, Token{Denom: denom, ChainRef: ch, ERC20: normERC20(erc)})
			}
		}
	}
	if o.MapUgrain {
		for _, ch := range o.Chains {
			erc := ERC20Addr(n)
			n++
			if _, err := c.Direct(MsgMapERC20Gov(chain.Denom, ch, erc), c.Height, c.Time); err != nil {
				return w, fmt.Errorf("map ugrain: %w", err)
			}
			w.Tokens = append(w.Tokens, Token{Denom: chain.Denom, ChainRef: ch, ERC20: normERC20(erc)})
		}
	}
	if _, err := BuildSnapshot(c); err != nil {
		return w, err
	}
	if br := c.Skip(1); br.Panic != "" || br.Err != nil {
		return w, fmt.Errorf("block: %s %v", br.Panic, br.Err)
	}
	return w, nil
}

func normERC20(s string) string {
	a, err := skywaytypes.NewEthAddress(s)
	if err != nil {
		return s
	}
	return a.GetAddress().Hex()
}

// KeepAlive sends keep-alives for all validators (call every < 2000 blocks, and before height 50).
func (w *BridgeWorld) KeepAlive() {
	for _, v := range w.Vals {
		_ = w.C.QueueTx(v, 0, MsgKeepAlive(v, PigeonVersion))
	}
}
