package chain

import (
	"testing"
	"time"

	sdk "github.com/cosmos/cosmos-sdk/types"
	banktypes "github.com/cosmos/cosmos-sdk/x/bank/types"
)

func TestSmoke(t *testing.T) {
	vals := DefaultValidators("smoke", []int64{40_000_000, 30_000_000, 20_000_000, 10_000_000})
	u1 := NewAccount("u1", "smoke/u1")
	u2 := NewAccount("u2", "smoke/u2")
	t0 := time.Now()
	c := New(Config{Validators: vals, Users: map[*Account]sdk.Coins{u1: sdk.NewCoins(sdk.NewInt64Coin(Denom, 1000000)), u2: sdk.NewCoins(sdk.NewInt64Coin(Denom, 5))},
		EVMChains: []EVMChainSpec{{RefID: "eth-main", ChainID: 1}, {RefID: "bnb-main", ChainID: 56}}, WithCompass: true, CaptureLog: true})
	defer c.Close()
	t.Logf("new: %v", time.Since(t0))
	br := c.Skip(3)
	if br.Panic != "" || br.Err != nil {
		t.Fatalf("block failed: %v %v", br.Panic, br.Err)
	}
	r := c.Deliver(u1, &banktypes.MsgSend{FromAddress: u1.Bech, ToAddress: u2.Bech, Amount: sdk.NewCoins(sdk.NewInt64Coin(Denom, 100))})
	if !r.OK() {
		t.Fatalf("send failed: %d %s", r.Code, r.Log)
	}
	if got := c.Balance(u2.Addr, Denom).Int64(); got != 105 {
		t.Fatalf("balance %d", got)
	}
	t0 = time.Now()
	br = c.Skip(120)
	t.Logf("120 blocks: %v h=%d", time.Since(t0), c.Height)
	if br.Panic != "" || br.Err != nil {
		t.Fatalf("block failed: %v %v", br.Panic, br.Err)
	}
	for k, v := range c.Log.Distinct() {
		t.Logf("%4d %s", v, k)
	}
	snap, err := c.App.ValsetKeeper.GetCurrentSnapshot(c.Ctx())
	t.Logf("snapshot: %v %v", snap, err)
}
