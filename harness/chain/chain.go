// Package chain runs the REAL paloma app.App in-process and drives it through ABCI
// (FinalizeBlock/Commit with signed transactions through the complete ante chain) or through the
// MsgServiceRouter on cache contexts ("direct mode"). One live app per process (util/eventbus and
// sdk.Config are process globals).
package chain

import (
	"context"
	"crypto/ecdsa"
	"crypto/sha256"
	"encoding/hex"
	"encoding/json"
	"fmt"
	_ "io"
	"os"
	"path/filepath"
	"runtime/debug"
	"sort"
	"strings"
	"sync"
	"time"

	"cosmossdk.io/log"
	sdkmath "cosmossdk.io/math"
	storetypes "cosmossdk.io/store/types"
	abci "github.com/cometbft/cometbft/abci/types"
	cmtproto "github.com/cometbft/cometbft/proto/tendermint/types"
	dbm "github.com/cosmos/cosmos-db"
	"github.com/cosmos/cosmos-sdk/baseapp"
	"github.com/cosmos/cosmos-sdk/client/flags"
	clienttx "github.com/cosmos/cosmos-sdk/client/tx"
	codectypes "github.com/cosmos/cosmos-sdk/codec/types"
	cryptocodec "github.com/cosmos/cosmos-sdk/crypto/codec"
	"github.com/cosmos/cosmos-sdk/crypto/keys/ed25519"
	"github.com/cosmos/cosmos-sdk/crypto/keys/secp256k1"
	"github.com/cosmos/cosmos-sdk/server"
	simtestutil "github.com/cosmos/cosmos-sdk/testutil/sims"
	sdk "github.com/cosmos/cosmos-sdk/types"
	"github.com/cosmos/cosmos-sdk/types/tx/signing"
	"github.com/cosmos/cosmos-sdk/version"
	authsigning "github.com/cosmos/cosmos-sdk/x/auth/signing"
	authtypes "github.com/cosmos/cosmos-sdk/x/auth/types"
	banktypes "github.com/cosmos/cosmos-sdk/x/bank/types"
	govtypes "github.com/cosmos/cosmos-sdk/x/gov/types"
	govv1 "github.com/cosmos/cosmos-sdk/x/gov/types/v1"
	minttypes "github.com/cosmos/cosmos-sdk/x/mint/types"
	slashingtypes "github.com/cosmos/cosmos-sdk/x/slashing/types"
	stakingtypes "github.com/cosmos/cosmos-sdk/x/staking/types"
	ethcrypto "github.com/ethereum/go-ethereum/crypto"

	palomaapp "github.com/palomachain/paloma/v2/app"
	chainparams "github.com/palomachain/paloma/v2/app/params"
	evmtypes "github.com/palomachain/paloma/v2/x/evm/types"
)

const Denom = "ugrain"

// Account is a secp256k1 key pair with its paloma address (and, for validators/pigeons, an
// Ethereum key used for external-chain signatures).
type Account struct {
	Name   string
	Priv   *secp256k1.PrivKey
	Addr   sdk.AccAddress
	Bech   string
	EthKey *ecdsa.PrivateKey
}

func (a *Account) ValAddr() sdk.ValAddress { return sdk.ValAddress(a.Addr) }
func (a *Account) ValBech() string         { return sdk.ValAddress(a.Addr).String() }
func (a *Account) EthAddr() string {
	return ethcrypto.PubkeyToAddress(a.EthKey.PublicKey).Hex()
}

// NewAccount derives a deterministic account from a secret string.
func NewAccount(name, secret string) *Account {
	k := secp256k1.GenPrivKeyFromSecret([]byte(secret))
	return AccountFromKey(name, k, secret)
}

func AccountFromKey(name string, k *secp256k1.PrivKey, ethSecret string) *Account {
	a := &Account{Name: name, Priv: k, Addr: sdk.AccAddress(k.PubKey().Address())}
	a.Bech = a.Addr.String()
	h := sha256.Sum256([]byte("eth/" + ethSecret))
	ek, err := ethcrypto.ToECDSA(h[:])
	if err != nil {
		panic(err)
	}
	a.EthKey = ek
	return a
}

type ValSpec struct {
	Acct  *Account
	Stake int64 // ugrain, bonded self-delegation
	Cons  *ed25519.PrivKey
}

type EVMChainSpec struct {
	RefID      string
	ChainID    uint64
	MinBalance string
}

type Config struct {
	ChainID       string
	Validators    []ValSpec
	Users         map[*Account]sdk.Coins // extra balances (validators get theirs via ValidatorLiquid)
	ValLiquid     int64                  // liquid ugrain per validator account
	EVMChains     []EVMChainSpec
	WithCompass   bool // put the compass ABI/bytecode into evm genesis
	VotingPeriod  time.Duration
	StartTime     time.Time
	UseLevelDB    bool
	Home          string // if empty: $VERIF_TMP or a fresh dir under /verif/out/tmp
	CaptureLog    bool
	MutateGenesis func(gs map[string]json.RawMessage, cdc Codec)
}

type Codec interface {
	MustMarshalJSON(o interface {
		Reset()
		String() string
		ProtoMessage()
	}) []byte
}

type Chain struct {
	App         *palomaapp.App
	Cfg         Config
	Height      int64 // last committed height
	Time        time.Time
	Log         *CaptureLogger
	Home        string
	db          dbm.DB
	pending     [][]byte
	valByAddr   map[string]*Account
	LastAppHash []byte
	extraHomes  []string
}

var setupOnce sync.Once

func globalSetup() {
	setupOnce.Do(func() {
		chainparams.SetAddressConfig()
		version.Version = "v2.4.12"
	})
}

// FixturesDir: /verif/fixtures, located relative to VERIF_DIR or cwd.
func FixturesDir() string {
	if d := os.Getenv("VERIF_DIR"); d != "" {
		return filepath.Join(d, "fixtures")
	}
	wd, _ := os.Getwd()
	for d := wd; d != "/"; d = filepath.Dir(d) {
		if _, err := os.Stat(filepath.Join(d, "fixtures", "compass-abi.json")); err == nil {
			return filepath.Join(d, "fixtures")
		}
	}
	return "/verif/fixtures"
}

func CompassABI() string {
	b, err := os.ReadFile(filepath.Join(FixturesDir(), "compass-abi.json"))
	if err != nil {
		panic(err)
	}
	return string(b)
}

func CompassBytecodeHex() string {
	b, err := os.ReadFile(filepath.Join(FixturesDir(), "compass-bytecode.hex"))
	if err != nil {
		panic(err)
	}
	return strings.TrimSpace(string(b))
}

func tmpHome() string {
	base := os.Getenv("VERIF_TMP")
	if base == "" {
		base = filepath.Join(filepath.Dir(FixturesDir()), "out", "tmp", fmt.Sprintf("p%d", os.Getpid()))
	}
	os.MkdirAll(base, 0o755)
	d, err := os.MkdirTemp(base, "home")
	if err != nil {
		panic(err)
	}
	return d
}

// New builds the app, runs InitChain with a hand-assembled genesis and commits block 1.
func New(cfg Config) *Chain {
	globalSetup()
	if cfg.ChainID == "" {
		cfg.ChainID = "verif-1"
	}
	if cfg.StartTime.IsZero() {
		cfg.StartTime = time.Date(2025, 1, 1, 0, 0, 0, 0, time.UTC)
	}
	if cfg.VotingPeriod == 0 {
		cfg.VotingPeriod = 10 * time.Second
	}
	if cfg.ValLiquid == 0 {
		cfg.ValLiquid = 1_000_000_000
	}
	c := &Chain{Cfg: cfg, valByAddr: map[string]*Account{}}
	c.Home = cfg.Home
	if c.Home == "" {
		c.Home = tmpHome()
	}
	if cfg.UseLevelDB {
		db, err := dbm.NewGoLevelDB("application", filepath.Join(c.Home, "data"), nil)
		if err != nil {
			panic(err)
		}
		c.db = db
	} else {
		c.db = dbm.NewMemDB()
	}
	c.open()
	gs := c.genesis()
	stateBytes, err := json.Marshal(gs)
	if err != nil {
		panic(err)
	}
	cp := *simtestutil.DefaultConsensusParams
	blk := *cp.Block
	blk.MaxGas = -1
	cp.Block = &blk
	_, err = c.App.InitChain(&abci.RequestInitChain{
		ChainId:         cfg.ChainID,
		Time:            cfg.StartTime,
		InitialHeight:   1,
		ConsensusParams: &cp,
		AppStateBytes:   stateBytes,
	})
	if err != nil {
		panic(fmt.Errorf("InitChain: %w", err))
	}
	c.Height = 0
	c.Time = cfg.StartTime
	return c
}

func (c *Chain) open() {
	var logger log.Logger = log.NewNopLogger()
	if c.Cfg.CaptureLog {
		if c.Log == nil {
			c.Log = NewCaptureLogger()
		}
		logger = c.Log
	}
	c.App = palomaapp.New(logger, c.db, nil, true, // nil trace writer: a non-nil one (even io.Discard) turns store tracing on
		simtestutil.AppOptionsMap{flags.FlagHome: c.Home, server.FlagInvCheckPeriod: 0},
		baseapp.SetChainID(c.Cfg.ChainID))
}

// Restart re-creates the application over the same database (node restart at a block boundary).
func (c *Chain) Restart() {
	// The wasm VM of the previous instance keeps an exclusive lock on <home>/data/wasm for the
	// lifetime of the process (a real node releases it by exiting). The chain state lives in c.db;
	// the home directory only holds the wasm code cache, which is empty in these workloads.
	c.extraHomes = append(c.extraHomes, c.Home)
	c.Home = tmpHome()
	c.open()
}

func (c *Chain) Close() {
	if c.db != nil {
		c.db.Close()
	}
	os.RemoveAll(c.Home)
	for _, h := range c.extraHomes {
		os.RemoveAll(h)
	}
}

func (c *Chain) genesis() map[string]json.RawMessage {
	app := c.App
	cdc := app.AppCodec()
	gs := app.DefaultGenesis()
	cfg := c.Cfg

	var accs []authtypes.GenesisAccount
	var balances []banktypes.Balance
	supply := sdk.NewCoins()
	accNum := uint64(0)
	addAcc := func(a *Account, coins sdk.Coins) {
		accs = append(accs, authtypes.NewBaseAccount(a.Addr, a.Priv.PubKey(), accNum, 0))
		accNum++
		if !coins.IsZero() {
			balances = append(balances, banktypes.Balance{Address: a.Bech, Coins: coins.Sort()})
			supply = supply.Add(coins...)
		}
	}

	var vals []stakingtypes.Validator
	var dels []stakingtypes.Delegation
	var signInfos []slashingtypes.SigningInfo
	bonded := sdkmath.ZeroInt()
	for _, v := range cfg.Validators {
		c.valByAddr[v.Acct.ValBech()] = v.Acct
		addAcc(v.Acct, sdk.NewCoins(sdk.NewInt64Coin(Denom, cfg.ValLiquid)))
		pkAny, err := codectypes.NewAnyWithValue(v.Cons.PubKey())
		if err != nil {
			panic(err)
		}
		tokens := sdkmath.NewInt(v.Stake)
		val := stakingtypes.Validator{
			OperatorAddress:   v.Acct.ValBech(),
			ConsensusPubkey:   pkAny,
			Jailed:            false,
			Status:            stakingtypes.Bonded,
			Tokens:            tokens,
			DelegatorShares:   sdkmath.LegacyNewDecFromInt(tokens),
			Description:       stakingtypes.Description{Moniker: v.Acct.Name},
			UnbondingHeight:   0,
			UnbondingTime:     time.Unix(0, 0).UTC(),
			Commission:        stakingtypes.NewCommission(sdkmath.LegacyNewDecWithPrec(5, 2), sdkmath.LegacyOneDec(), sdkmath.LegacyNewDecWithPrec(1, 2)),
			MinSelfDelegation: sdkmath.OneInt(),
		}
		vals = append(vals, val)
		dels = append(dels, stakingtypes.NewDelegation(v.Acct.Bech, v.Acct.ValBech(), sdkmath.LegacyNewDecFromInt(tokens)))
		bonded = bonded.Add(tokens)
		consAddr := sdk.ConsAddress(v.Cons.PubKey().Address())
		signInfos = append(signInfos, slashingtypes.SigningInfo{
			Address: consAddr.String(),
			ValidatorSigningInfo: slashingtypes.ValidatorSigningInfo{
				Address: consAddr.String(), StartHeight: 0, JailedUntil: time.Unix(0, 0).UTC(),
			},
		})
	}
	// deterministic order of user accounts
	var users []*Account
	for a := range cfg.Users {
		users = append(users, a)
	}
	sort.Slice(users, func(i, j int) bool { return users[i].Bech < users[j].Bech })
	for _, a := range users {
		addAcc(a, cfg.Users[a])
	}
	// bonded pool
	bondedPool := authtypes.NewModuleAddress(stakingtypes.BondedPoolName)
	if bonded.IsPositive() {
		bc := sdk.NewCoins(sdk.NewCoin(Denom, bonded))
		balances = append(balances, banktypes.Balance{Address: bondedPool.String(), Coins: bc})
		supply = supply.Add(bc...)
	}

	// auth
	var authGen authtypes.GenesisState
	cdc.MustUnmarshalJSON(gs[authtypes.ModuleName], &authGen)
	packed, err := authtypes.PackAccounts(accs)
	if err != nil {
		panic(err)
	}
	authGen.Accounts = packed
	gs[authtypes.ModuleName] = cdc.MustMarshalJSON(&authGen)

	// bank
	var bankGen banktypes.GenesisState
	cdc.MustUnmarshalJSON(gs[banktypes.ModuleName], &bankGen)
	bankGen.Balances = banktypes.SanitizeGenesisBalances(balances)
	bankGen.Supply = supply
	gs[banktypes.ModuleName] = cdc.MustMarshalJSON(&bankGen)

	// staking
	var stGen stakingtypes.GenesisState
	cdc.MustUnmarshalJSON(gs[stakingtypes.ModuleName], &stGen)
	stGen.Validators = vals
	stGen.Delegations = dels
	stGen.Params.UnbondingTime = 60 * time.Second
	gs[stakingtypes.ModuleName] = cdc.MustMarshalJSON(&stGen)

	// slashing
	var slGen slashingtypes.GenesisState
	cdc.MustUnmarshalJSON(gs[slashingtypes.ModuleName], &slGen)
	slGen.SigningInfos = signInfos
	gs[slashingtypes.ModuleName] = cdc.MustMarshalJSON(&slGen)

	// mint: no inflation so that ugrain supply is exact
	var mintGen minttypes.GenesisState
	cdc.MustUnmarshalJSON(gs[minttypes.ModuleName], &mintGen)
	mintGen.Minter.Inflation = sdkmath.LegacyZeroDec()
	mintGen.Params.InflationMax = sdkmath.LegacyZeroDec()
	mintGen.Params.InflationMin = sdkmath.LegacyZeroDec()
	mintGen.Params.InflationRateChange = sdkmath.LegacyZeroDec()
	gs[minttypes.ModuleName] = cdc.MustMarshalJSON(&mintGen)

	// gov: short voting period, tiny deposit
	var govGen govv1.GenesisState
	cdc.MustUnmarshalJSON(gs[govtypes.ModuleName], &govGen)
	vp := cfg.VotingPeriod
	govGen.Params.VotingPeriod = &vp
	evp := cfg.VotingPeriod / 2
	govGen.Params.ExpeditedVotingPeriod = &evp
	govGen.Params.MinDeposit = sdk.NewCoins(sdk.NewInt64Coin(Denom, 1000))
	govGen.Params.ExpeditedMinDeposit = sdk.NewCoins(sdk.NewInt64Coin(Denom, 5000))
	gs[govtypes.ModuleName] = cdc.MustMarshalJSON(&govGen)

	// evm
	var evmGen evmtypes.GenesisState
	cdc.MustUnmarshalJSON(gs[evmtypes.ModuleName], &evmGen)
	for _, ch := range cfg.EVMChains {
		mb := ch.MinBalance
		if mb == "" {
			mb = "0"
		}
		evmGen.Chains = append(evmGen.Chains, &evmtypes.GenesisChainInfo{
			ChainReferenceID:  ch.RefID,
			ChainID:           ch.ChainID,
			BlockHeight:       100,
			BlockHashAtHeight: "0x" + strings.Repeat("ab", 32),
			MinOnChainBalance: mb,
			FeeManagerAddr:    "0x00000000000000000000000000000000000000fe",
		})
	}
	if cfg.WithCompass {
		evmGen.SmartContract = &evmtypes.GenesisSmartContract{AbiJson: CompassABI(), BytecodeHex: CompassBytecodeHex()}
	}
	gs[evmtypes.ModuleName] = cdc.MustMarshalJSON(&evmGen)

	if cfg.MutateGenesis != nil {
		cfg.MutateGenesis(gs, nil)
	}
	return gs
}

// ---------------------------------------------------------------------------------------------
// transactions

// Ctx returns a context over the latest state (committed + direct-mode writes). Reads only,
// unless the caller knows what it is doing (direct mode).
func (c *Chain) Ctx() sdk.Context {
	return c.CtxAt(c.Height, c.Time)
}

func (c *Chain) CtxAt(height int64, t time.Time) sdk.Context {
	return c.App.BaseApp.NewUncachedContext(false, cmtproto.Header{ChainID: c.Cfg.ChainID, Height: height, Time: t}).
		WithGasMeter(storetypes.NewInfiniteGasMeter()).
		WithBlockGasMeter(storetypes.NewInfiniteGasMeter())
}

func (c *Chain) accountNumSeq(a sdk.AccAddress) (uint64, uint64, bool) {
	acc := c.App.AccountKeeper.GetAccount(c.Ctx(), a)
	if acc == nil {
		return 0, 0, false
	}
	return acc.GetAccountNumber(), acc.GetSequence(), true
}

type TxOpts struct {
	SeqOffset  uint64 // added to the committed sequence (earlier txs of the same signer in the block)
	FeeGranter sdk.AccAddress
	GasLimit   uint64
	Memo       string
}

// SignTx builds a SIGN_MODE_DIRECT transaction signed by the given accounts (in signer order).
func (c *Chain) SignTx(signers []*Account, msgs []sdk.Msg, o TxOpts) ([]byte, error) {
	txCfg := c.App.TxConfig()
	b := txCfg.NewTxBuilder()
	if err := b.SetMsgs(msgs...); err != nil {
		return nil, err
	}
	gl := o.GasLimit
	if gl == 0 {
		gl = 2_000_000_000
	}
	b.SetGasLimit(gl)
	b.SetMemo(o.Memo)
	if o.FeeGranter != nil {
		b.SetFeeGranter(o.FeeGranter)
	}
	type sd struct{ num, seq uint64 }
	var sds []sd
	var sigs []signing.SignatureV2
	for _, s := range signers {
		num, seq, _ := c.accountNumSeq(s.Addr)
		seq += o.SeqOffset
		sds = append(sds, sd{num, seq})
		sigs = append(sigs, signing.SignatureV2{
			PubKey:   s.Priv.PubKey(),
			Data:     &signing.SingleSignatureData{SignMode: signing.SignMode_SIGN_MODE_DIRECT},
			Sequence: seq,
		})
	}
	if err := b.SetSignatures(sigs...); err != nil {
		return nil, err
	}
	sigs = sigs[:0]
	for i, s := range signers {
		sig, err := clienttx.SignWithPrivKey(context.Background(), signing.SignMode_SIGN_MODE_DIRECT,
			authsigning.SignerData{ChainID: c.Cfg.ChainID, AccountNumber: sds[i].num, Sequence: sds[i].seq, PubKey: s.Priv.PubKey(), Address: s.Bech},
			b, s.Priv, txCfg, sds[i].seq)
		if err != nil {
			return nil, err
		}
		sigs = append(sigs, sig)
	}
	if err := b.SetSignatures(sigs...); err != nil {
		return nil, err
	}
	return txCfg.TxEncoder()(b.GetTx())
}

// Queue adds a raw tx to the next block.
func (c *Chain) Queue(tx []byte) { c.pending = append(c.pending, tx) }

// PendingCount is the number of txs queued for the next block (= index the next queued tx gets
// in BlockResult.Txs).
func (c *Chain) PendingCount() int { return len(c.pending) }

// CoinFlow sums, over the events of one tx, the coins of denom spent by / received by addr
// (bank coin_spent / coin_received events).
func CoinFlow(evs []abci.Event, addr, denom string) (spent, received sdkmath.Int) {
	spent, received = sdkmath.ZeroInt(), sdkmath.ZeroInt()
	for _, e := range evs {
		if e.Type != "coin_spent" && e.Type != "coin_received" {
			continue
		}
		who, amt := "", ""
		for _, a := range e.Attributes {
			switch a.Key {
			case "spender", "receiver":
				who = a.Value
			case "amount":
				amt = a.Value
			}
		}
		if who != addr {
			continue
		}
		coins, err := sdk.ParseCoinsNormalized(amt)
		if err != nil {
			continue
		}
		if e.Type == "coin_spent" {
			spent = spent.Add(coins.AmountOf(denom))
		} else {
			received = received.Add(coins.AmountOf(denom))
		}
	}
	return
}

type TxResult struct {
	Code      uint32
	Log       string
	Events    []abci.Event
	Data      []byte
	Codespace string
}

func (r TxResult) OK() bool { return r.Code == 0 }

type BlockResult struct {
	Height  int64
	Txs     []TxResult
	Events  []abci.Event
	AppHash []byte
	RawTxs  [][]byte
	Time    time.Time
	Panic   string // non-empty: FinalizeBlock panicked (stack included)
	Err     error  // FinalizeBlock returned an error
	Resp    *abci.ResponseFinalizeBlock
}

// NextBlock executes the pending txs in a new block (height+1) and commits.
func (c *Chain) NextBlock() *BlockResult { return c.NextBlockAfter(2 * time.Second) }

func (c *Chain) NextBlockAfter(dt time.Duration) (br *BlockResult) {
	txs := c.pending
	c.pending = nil
	h := c.Height + 1
	t := c.Time.Add(dt)
	br = &BlockResult{Height: h, RawTxs: txs, Time: t}
	func() {
		defer func() {
			if e := recover(); e != nil {
				br.Panic = fmt.Sprintf("%v\n%s", e, debug.Stack())
			}
		}()
		resp, err := c.App.FinalizeBlock(&abci.RequestFinalizeBlock{Height: h, Time: t, Txs: txs,
			ProposerAddress: c.proposer()})
		if err != nil {
			br.Err = err
			return
		}
		br.Resp = resp
		for _, r := range resp.TxResults {
			br.Txs = append(br.Txs, TxResult{Code: r.Code, Log: r.Log, Events: r.Events, Data: r.Data, Codespace: r.Codespace})
		}
		br.Events = resp.Events
		br.AppHash = resp.AppHash
		if _, err := c.App.Commit(); err != nil {
			br.Err = err
			return
		}
		c.Height = h
		c.Time = t
		c.LastAppHash = resp.AppHash
	}()
	return br
}

func (c *Chain) proposer() []byte {
	if len(c.Cfg.Validators) == 0 {
		return nil
	}
	return c.Cfg.Validators[0].Cons.PubKey().Address()
}

// Deliver signs msgs with signer, executes them alone in the next block and returns the result.
func (c *Chain) Deliver(signer *Account, msgs ...sdk.Msg) TxResult {
	return c.DeliverSigned([]*Account{signer}, msgs...)
}

func (c *Chain) DeliverSigned(signers []*Account, msgs ...sdk.Msg) TxResult {
	tx, err := c.SignTx(signers, msgs, TxOpts{})
	if err != nil {
		return TxResult{Code: 99999, Log: "harness: cannot build tx: " + err.Error()}
	}
	c.Queue(tx)
	br := c.NextBlock()
	if br.Panic != "" {
		return TxResult{Code: 99998, Log: "PANIC in FinalizeBlock: " + br.Panic}
	}
	if br.Err != nil {
		return TxResult{Code: 99997, Log: "FinalizeBlock error: " + br.Err.Error()}
	}
	return br.Txs[len(br.Txs)-1]
}

// QueueTx signs and queues (for multi-tx blocks). seqOffset = number of earlier queued txs by
// the same first signer.
func (c *Chain) QueueTx(signer *Account, seqOffset uint64, msgs ...sdk.Msg) error {
	tx, err := c.SignTx([]*Account{signer}, msgs, TxOpts{SeqOffset: seqOffset})
	if err != nil {
		return err
	}
	c.Queue(tx)
	return nil
}

// Skip produces n empty blocks.
func (c *Chain) Skip(n int) *BlockResult {
	var br *BlockResult
	for i := 0; i < n; i++ {
		br = c.NextBlock()
		if br.Panic != "" || br.Err != nil {
			return br
		}
	}
	return br
}

// ---------------------------------------------------------------------------------------------
// direct mode

// Direct routes msg through the real MsgServiceRouter handler inside a cache context at the
// given height/time and writes the cache back only on success (baseapp runMsgs atomicity, no ante).
func (c *Chain) Direct(msg sdk.Msg, height int64, t time.Time) (res *sdk.Result, err error) {
	ctx := c.CtxAt(height, t)
	cctx, write := ctx.CacheContext()
	h := c.App.MsgServiceRouter().Handler(msg)
	if h == nil {
		return nil, fmt.Errorf("no handler for %s", sdk.MsgTypeURL(msg))
	}
	defer func() {
		if e := recover(); e != nil {
			err = fmt.Errorf("PANIC in handler: %v\n%s", e, debug.Stack())
		}
	}()
	res, err = h(cctx, msg)
	if err == nil {
		write()
	}
	return res, err
}

// Fork returns a throw-away cache context over the latest state at the given height/time.
func (c *Chain) Fork(height int64, t time.Time) sdk.Context {
	cctx, _ := c.CtxAt(height, t).CacheContext()
	return cctx
}

// ---------------------------------------------------------------------------------------------
// observation

// StoreKeyNames: all mounted KV store names.
func (c *Chain) KVStore(ctx sdk.Context, name string) storetypes.KVStore {
	k := c.App.GetKey(name)
	if k == nil {
		return nil
	}
	return ctx.KVStore(k)
}

// DumpStore returns all key/value pairs of a store (hex) under ctx.
func (c *Chain) DumpStore(ctx sdk.Context, name string) map[string]string {
	out := map[string]string{}
	st := c.KVStore(ctx, name)
	if st == nil {
		return out
	}
	it := st.Iterator(nil, nil)
	defer it.Close()
	for ; it.Valid(); it.Next() {
		out[hex.EncodeToString(it.Key())] = hex.EncodeToString(it.Value())
	}
	return out
}

// DigestStores hashes the full content of the named stores under ctx.
func (c *Chain) DigestStores(ctx sdk.Context, names ...string) string {
	h := sha256.New()
	for _, n := range names {
		st := c.KVStore(ctx, n)
		if st == nil {
			continue
		}
		h.Write([]byte(n))
		it := st.Iterator(nil, nil)
		for ; it.Valid(); it.Next() {
			k, v := it.Key(), it.Value()
			var l [8]byte
			l[0], l[1], l[2], l[3] = byte(len(k)>>24), byte(len(k)>>16), byte(len(k)>>8), byte(len(k))
			l[4], l[5], l[6], l[7] = byte(len(v)>>24), byte(len(v)>>16), byte(len(v)>>8), byte(len(v))
			h.Write(l[:])
			h.Write(k)
			h.Write(v)
		}
		it.Close()
	}
	return hex.EncodeToString(h.Sum(nil))
}

// DiffStores lists keys that differ between two dumps (for witnesses).
func DiffStores(a, b map[string]string) []string {
	var d []string
	for k, v := range a {
		if w, ok := b[k]; !ok {
			d = append(d, "-"+k)
		} else if w != v {
			d = append(d, "~"+k)
		}
	}
	for k := range b {
		if _, ok := a[k]; !ok {
			d = append(d, "+"+k)
		}
	}
	sort.Strings(d)
	return d
}

func (c *Chain) Balance(addr sdk.AccAddress, denom string) sdkmath.Int {
	return c.App.BankKeeper.GetBalance(c.Ctx(), addr, denom).Amount
}

func (c *Chain) Supply(denom string) sdkmath.Int {
	return c.App.BankKeeper.GetSupply(c.Ctx(), denom).Amount
}

func ModuleAddr(name string) sdk.AccAddress { return authtypes.NewModuleAddress(name) }

func GovAuthority() string { return authtypes.NewModuleAddress(govtypes.ModuleName).String() }

// EventAttr finds the first attribute value of an event type in a list of events.
func EventAttr(evs []abci.Event, typ, key string) (string, bool) {
	for _, e := range evs {
		if e.Type != typ && !strings.HasSuffix(e.Type, "."+typ) {
			continue
		}
		for _, a := range e.Attributes {
			if a.Key == key {
				return a.Value, true
			}
		}
	}
	return "", false
}

func init() {
	_ = cryptocodec.RegisterInterfaces
	globalSetup()
}

// DefaultValidators makes n validators with the given stakes (ugrain).
func DefaultValidators(prefix string, stakes []int64) []ValSpec {
	var out []ValSpec
	for i, s := range stakes {
		a := NewAccount(fmt.Sprintf("val%d", i), fmt.Sprintf("%s/val/%d", prefix, i))
		cons := ed25519.GenPrivKeyFromSecret([]byte(fmt.Sprintf("%s/cons/%d", prefix, i)))
		out = append(out, ValSpec{Acct: a, Stake: s, Cons: cons})
	}
	return out
}

// RunTxOnFork executes a signed transaction with baseapp's runTx semantics on the given (fork)
// context: ValidateBasic of every message, the application's REAL ante handler chain (signature,
// sequence and Paloma's authorisation decorators) on a cache that is kept when the ante succeeds,
// then every message through the real MsgServiceRouter on a second cache that is kept only if all
// messages succeed. The context is mutated in place (it is a fork anyway); nothing is committed.
func (c *Chain) RunTxOnFork(ctx sdk.Context, txBytes []byte) (anteErr, msgErr error) {
	defer func() {
		if e := recover(); e != nil {
			msgErr = fmt.Errorf("panic: %v", e) // baseapp recovers panics in runTx and fails the tx
		}
	}()
	tx, err := c.App.TxConfig().TxDecoder()(txBytes)
	if err != nil {
		return err, nil
	}
	for _, m := range tx.GetMsgs() {
		if vb, ok := m.(sdk.HasValidateBasic); ok {
			if err := vb.ValidateBasic(); err != nil {
				return err, nil
			}
		}
	}
	ctx = ctx.WithTxBytes(txBytes)
	anteCtx, writeAnte := ctx.CacheContext()
	if _, err := c.App.AnteHandler()(anteCtx, tx, false); err != nil {
		return err, nil
	}
	writeAnte()
	msgCtx, writeMsgs := ctx.CacheContext()
	msgCtx = msgCtx.WithGasMeter(storetypes.NewInfiniteGasMeter())
	for _, m := range tx.GetMsgs() {
		h := c.App.MsgServiceRouter().Handler(m)
		if h == nil {
			return nil, fmt.Errorf("no handler for %s", sdk.MsgTypeURL(m))
		}
		if _, err := h(msgCtx, m); err != nil {
			return nil, err
		}
	}
	writeMsgs()
	return nil, nil
}
