package chain

import (
	"fmt"
	"sync"

	"cosmossdk.io/log"
)

// CaptureLogger records Error/Warn/Info lines (message + key/values) so that monitors can see
// failures the code swallows, and use distinct lines as a branch-coverage proxy.
type LogLine struct {
	Level string
	Msg   string
	KV    []string
}

func (l LogLine) String() string { return fmt.Sprintf("%s %s %v", l.Level, l.Msg, l.KV) }

type logShared struct {
	mu       sync.Mutex
	lines    []LogLine
	distinct map[string]int
	Keep     bool
}

type CaptureLogger struct {
	sh *logShared
	kv []any
}

func NewCaptureLogger() *CaptureLogger {
	return &CaptureLogger{sh: &logShared{distinct: map[string]int{}, Keep: true}}
}

func (c *CaptureLogger) add(level, msg string, kv []any) {
	all := append(append([]any{}, c.kv...), kv...)
	var s []string
	for i := 0; i+1 < len(all); i += 2 {
		s = append(s, fmt.Sprintf("%v=%v", all[i], all[i+1]))
	}
	c.sh.mu.Lock()
	c.sh.distinct[level+" "+msg]++
	if c.sh.Keep && len(c.sh.lines) < 200000 {
		c.sh.lines = append(c.sh.lines, LogLine{Level: level, Msg: msg, KV: s})
	}
	c.sh.mu.Unlock()
}

func (c *CaptureLogger) Info(msg string, kv ...any)  { c.add("INFO", msg, kv) }
func (c *CaptureLogger) Warn(msg string, kv ...any)  { c.add("WARN", msg, kv) }
func (c *CaptureLogger) Error(msg string, kv ...any) { c.add("ERROR", msg, kv) }
func (c *CaptureLogger) Debug(msg string, kv ...any) {}
func (c *CaptureLogger) With(kv ...any) log.Logger {
	return &CaptureLogger{sh: c.sh, kv: append(append([]any{}, c.kv...), kv...)}
}
func (c *CaptureLogger) Impl() any { return c }

// Drain returns and clears the captured lines.
func (c *CaptureLogger) Drain() []LogLine {
	c.sh.mu.Lock()
	defer c.sh.mu.Unlock()
	l := c.sh.lines
	c.sh.lines = nil
	return l
}

// Distinct returns level+message -> count.
func (c *CaptureLogger) Distinct() map[string]int {
	c.sh.mu.Lock()
	defer c.sh.mu.Unlock()
	out := map[string]int{}
	for k, v := range c.sh.distinct {
		out[k] = v
	}
	return out
}
