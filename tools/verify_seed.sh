#!/usr/bin/env bash
# usage: tools/verify_seed.sh <worktree> <demo-package> -> writes <worktree>/verify.log
# confirms: build ok, demo FAILS with the change, PASSES without, existing suite (without demo) passes with the change
export GOFLAGS=-mod=mod GOPROXY=off GOSUMDB=off GOTOOLCHAIN=local
wt="$1"; pkg="$2"; cd "$wt" || exit 2
{
echo "== build"; go build ./... && echo BUILD-OK
echo "== demo WITH change (expect FAIL)"; go test -vet=off -count=1 -run SeedDemo $pkg 2>&1 | tail -4
echo "== demo WITHOUT change (expect ok)"; git apply -R seed.patch && go test -vet=off -count=1 -run SeedDemo $pkg 2>&1 | tail -3; git apply seed.patch
echo "== existing suite WITH change, demo moved aside"
demo=$(git status --short | grep zz_seed_demo | awk '{print $2}'); mkdir -p /tmp/seed-demo-aside; for d in $demo; do mv "$d" /tmp/seed-demo-aside/$(basename $wt)-$(echo "$d" | tr '/' '_'); done
go test -vet=off -count=1 ./... 2>&1 | grep -v "no test files" | grep -v "^ok" | tail -10; echo "suite exit: done"
for d in $demo; do mv /tmp/seed-demo-aside/$(basename $wt)-$(echo "$d" | tr '/' '_') "${d%/}"; done
} > "$wt/verify.log" 2>&1
