#!/usr/bin/env bash
# usage: tools/sweep.sh quick|thorough [seed]   -> runs every registered check through check.sh, prints wall time and verdict
tier="${1:-quick}"; seed="${2:-1}"
cd "$(dirname "$0")/.."
for p in $(python3 -c "import json;print(' '.join(c['property_id'] for c in json.load(open('MANIFEST.json'))['checks']))"); do
  s=$(date +%s)
  VERIF_SEED=$seed ./check.sh $p $tier > out/sweep-$p-$tier-$seed.log 2>&1; rc=$?
  e=$(date +%s)
  echo "$p tier=$tier seed=$seed exit=$rc wall=$((e-s))s $(grep -cE '^VIOLATION' out/sweep-$p-$tier-$seed.log) violations, $(grep -cE '^KNOWN-FINDING' out/sweep-$p-$tier-$seed.log) known, $(grep -cE '^INCONCLUSIVE' out/sweep-$p-$tier-$seed.log) inconclusive"
done
