#!/usr/bin/env bash
# usage: tools/mkprompt.sh C04 "extra text"
id="$1"; low=$(echo "$id" | tr 'A-Z' 'a-z'); extra="${2:-}"
python3 - "$id" "$low" "$extra" <<'PY'
import sys
t=open('/verif/tools/agent_prompt.txt').read()
print(t.replace('__ID__',sys.argv[1]).replace('__LOW__',sys.argv[2]).replace('__EXTRA__',sys.argv[3]))
PY
