#!/usr/bin/env python3
"""usage: tools/keep_seed.py C01 a <worktree> '<needs>' '<detected_by>' '<clause>'  -> /verif/seeded/C01-a/"""
import sys, os, json, shutil, subprocess, glob
pid, tag, wt, needs, detected, clause = sys.argv[1:7]
d = f"/verif/seeded/{pid}-{tag}"
os.makedirs(d, exist_ok=True)
shutil.copy(os.path.join(wt, "seed.patch"), os.path.join(d, "patch.diff"))
demos = subprocess.run(["git", "-C", wt, "status", "--short"], capture_output=True, text=True).stdout
demo_files = []
for l in demos.splitlines():
    if "zz_seed_demo" not in l:
        continue
    f = l.split()[-1]
    if os.path.isdir(os.path.join(wt, f)):  # untracked directory: take the files inside
        for root, _, names in os.walk(os.path.join(wt, f)):
            for n in names:
                demo_files.append(os.path.relpath(os.path.join(root, n), wt))
    else:
        demo_files.append(f)
names = {}
for f in demo_files:
    n = os.path.basename(f)
    if [os.path.basename(g) for g in demo_files].count(n) > 1:  # same file name in several packages
        n = f.replace("/", "__")
    names[f] = n
    shutil.copy(os.path.join(wt, f), os.path.join(d, n))
base = subprocess.run(["git", "-C", wt, "rev-parse", "--short", "HEAD"], capture_output=True, text=True).stdout.strip()
verify = open(os.path.join(wt, "verify.log")).read() if os.path.exists(os.path.join(wt, "verify.log")) else ""
meta = {
  "property": pid, "seed": f"{pid}-{tag}", "base_commit": base,
  "breaks_clause": clause, "needs_to_manifest": needs,
  "demo_files": {names[f]: f for f in demo_files},
  "demo_cmd": "copy the demo file to its path in the tree, then: go test -vet=off -count=1 -run SeedDemo ./" + os.path.dirname(demo_files[0]) + "/" if demo_files else "",
  "confirmed_by_me": {"build": "BUILD-OK" in verify, "demo_fails_with_change": "FAIL" in verify.split("WITHOUT")[0] if verify else None,
                      "demo_passes_without": ("ok " in verify.split("WITHOUT")[1].split("== existing")[0]) if "WITHOUT" in verify else None,
                      "existing_suite_passes_with_change": ("FAIL" not in verify.split("== existing")[1]) if "== existing" in verify else None,
                      "how": "tools/verify_seed.sh <worktree> <pkg> (scratch worktree outside /repo and /verif)"},
  "detected_by_checks": detected,
  "author": "independent sub-agent given only the property text and its own worktree",
}
json.dump(meta, open(os.path.join(d, "meta.json"), "w"), indent=1)
print("kept", d, meta["confirmed_by_me"])
