#!/usr/bin/env python3
"""Generates MANIFEST.json from the table below (kept in one place so the manifest stays valid)."""
import json, os, subprocess
HERE = os.path.dirname(os.path.dirname(os.path.abspath(__file__)))
BASELINE = json.load(open('/root/.vp/BASELINE.json'))

CHECKS = {
 # id: (level, engine, technique, level text, level note, design ref)
 "C01": ("fault_enumeration", "chain+world",
         "ledger reference-model monitor over ABCI histories of the real app + k-th-call fault enumeration on forked states through proxies installed by the verif hook",
         "Seeded hostile histories of the real application (send/cancel/batch build/estimates/confirms/time-outs/executed-batch and deposit attestations, tax changes, a chain without eligible relayer) are executed through ABCI; at every block boundary a ledger keyed by transfer id is compared with pool, batches, escrow balance and supply. At sampled boundaries every bridge step is re-run on throw-away forks with exactly the k-th collaborator call failed, for every k, checking byte-identical skyway+bank stores after a reported failure and the ledger invariants after every step. Held = held on those histories and fault points.",
         "Faults are errors at the hooked bank/EVM keeper interface calls; oracle voting taken from the chain (C02); tax arithmetic (C15) and crash atomicity below ABCI out of scope.",
         "DESIGN.md §2 C01"),
 "C02": ("exploration", "chain+world",
         "shadow-oracle monitor over ABCI histories of the real app with honest/lazy/byzantine pigeons, stake churn, jailing and governance nonce overrides",
         "Seeded hostile histories of the real application: a simulated remote chain emits events, one pigeon per validator votes (honest, late, or for an altered claim), stake moves, validators get jailed/unjailed, governance moves the oracle cursor down/up/to the same value and back. After every block the shadow oracle re-derives from the stored attestation records and staking powers: duplicate-free vote lists, distinct voters' power*100 > 66*total for every claim that took effect, strictly consecutive nonces, one claim per nonce per reset epoch, cursor advance == number of effects, and supply/receiver effects applied exactly once. Held = held on those histories.",
         "Stored powers after a block equal those the tally saw (module order); jailing via valset.Jail; compass hand-over resets only at bring-up; the remote chain of this workload emits deposit and executed-batch events - light-node sale events are not emitted, although the shadow oracle knows the claim type (their claim identity is decided by C11; seed C02-k is caught there, not here).",
         "DESIGN.md §2 C02"),
 "C03": ("exploration", "chain+world",
         "view-diff monitor over an enumerated (message type x attack role) matrix delivered through the real ante chain and router on forked states, cross-checked against real ABCI blocks",
         "Every Paloma sdk.Msg type registered with a handler is discovered at run time; for each an honest instance in the name of principal B is built from a live world state and then delivered as attacks signed only by an account A without grant (foreign signer, swapped creator with the body still naming B, swapped authority, confirmation with a foreign external signature, a foreign message hidden behind a legitimately delegated first message of the same tx, the former creator of a token that was handed over to B). Oracle: an accepted attack leaves B's view (everything Paloma keeps in B's name, read through exported getters) and the governance view unchanged; honest and fee-grant-delegated deliveries must be accepted (so the templates are live). Held = held on the enumerated matrix in the generated world states.",
         "Exceptions the property states are exempt (fee-grant delegation, confirmations carrying B's own external signature, licences for fresh addresses); compass deployment bookkeeping and bad-signature evidence are outside the views; message types without a template are listed in the evidence.",
         "DESIGN.md §2 C03"),
 "C04": ("exploration", "chain+world",
         "exact big-integer reference model against the real tally/median code: bounded-exhaustive + random direct calls (AddEvidence, VerifyEvidence, VerifyGasEstimates, Median) and per-block oracle over real-tx histories of the real app",
         "Pure part: every share vector of 1-5 validators over {1..7} x every assignment of abstain/3 evidence values x 3 ways of reaching it x 9 evidence families, random 30-175 validator sets with shares up to 2^200 steered to one-short/exact/one-above 2/3, all multisets of boundary uint64 estimates, all run through the real functions and compared with an exact rational/big-int reference. In situ: histories of real evidence and estimate txs (boundary-steered camps, split votes, re-submissions, outsiders, snapshot changes, real relay prelude); after every block removal, effects and elected estimates must be exactly what the reference decides from the monitor's own record. Held = held on those evaluations.",
         "Evidence identity = type URL + value bytes of the submitted proof; estimates of bonded validators outside the snapshot are accepted into the median (literal reading); nil/garbage proofs belong to C09.",
         "DESIGN.md §2 C04"),
 "C05": ("exploration", "chain+world",
         "self-calibrating metamorphic oracle (independent compass-ABI encoder vs the code's signing bytes, field mutation by reflection) + id high-water-mark monitor over raw consensus-store scans of real-app histories",
         "Part 1: for generated messages of all action types and batches an independent encoder builds the call the remote contract is handed; for every reflected field x 8-16 alternative values and 2-4-field mutants, a changed delivered call must change the signing bytes (global signed->delivered map also catches cross-item collisions); VerifyAgainstTX calibrates the encoder and classifies fields by the code itself. Part 2: histories of the real app (jobs, estimates with fee attachment = replace in place, evidence, retries, snapshot supersession, pruning, chain removal/re-addition), interleaved with direct calls of the consensus keeper's public queue API (replace with a live / just-removed / long-gone / foreign-queue / never-issued id, delete): every id handed out must exceed all committed ids, live in one queue, never reappear. Held = held on the generated pairs and histories.",
         "Collision resistance of keccak assumed; values equal as delivered (gas 0 vs 300000, nil fees vs defaults, address spellings) are not changes; UploadSmartContract only bytecode+id.",
         "DESIGN.md §2 C05"),
 "C06": ("exploration", "chain+world",
         "block-boundary invariant monitor with independent ecrecover over the monitor's own log of key registrations and sign events, on real-tx histories of the real app",
         "Histories with valid / invalid / wrong-key / duplicate / replayed signatures and confirmations, signing before and after estimate election, fee attachment, key re-registration and hand-over, aliased registrations; after every block every stored signature and batch confirmation must recover (go-ethereum ecrecover over the item's CURRENT signing bytes) to a key its validator had registered for that chain when the monitor saw it sign, no validator and no key twice per item, and nothing signed over an earlier version of the bytes may remain. Held = held at every boundary of those histories.",
         "Signing bytes taken from the item's own hashing code (their binding is C05); relayer re-assignment is not generated because no code path of the tree under test reaches it.",
         "DESIGN.md §2 C06"),
 "C07": ("exploration", "chain+world",
         "differential oracle: independent compass-ABI encoding + receipt + freshness verdict vs what the real attestation flow of the real app accepts and which success effects appear, over corrupted / replayed / late-signature proofs",
         "Histories of the real app with all five action types produced by their real flows (initial compass upload, governance upgrade and hand-over, valset updates, jobs, user contracts); every round ends with >= 2/3 of shares attesting one proof drawn from faithful variants (signature prefixes, late signatures, older valsets), 36 single/multi-field corruptions, bad or missing receipts and replays of used transactions. After every block the monitor's own verdict (call data byte-equal to an independent encoding for some signature prefix, receipt status 1, tx not used before) is compared with acceptance (metrix relay record / module log) and with the success effects (snapshot live, compass recorded/activated, user deployment recorded), incl. at-most-once. Held = held on those rounds.",
         "Only-if direction (a valid proof that is rejected is counted, not flagged); the empty signature prefix counts as a prefix; known finding: empty-valset proofs (see known_findings.txt).",
         "DESIGN.md §2 C07"),
 "C08": ("exploration", "chain+world",
         "twin executions of the same seeded history in separate processes under environment / restart / read-only-traffic / database variations with per-block digest comparison + 25-fold repeated evaluation of pure decisions on forked states",
         "Each omnibus history is executed by 4-6 twin processes that differ only in what must not matter (every env variable the sources read - found by scanning at check time - set vs unset, TZ/GOMAXPROCS/GOGC/LANG, restarts at block boundaries, read-only traffic incl. CheckTx/Simulate between blocks, memdb vs goleveldb; the query-serving twins also SIMULATE transactions that are never sent and collide with what the workload does for real later - same job ids with other content, the factory denom's admin handed over, tax/limit proposals only submitted, other relayer fees - so that node-local state surviving a discarded execution shows as a divergence); per block the digests of raw txs, tx results (code, data, gas, events), block events and app hash are compared. In the base twin relayer selection, snapshot construction, attestation processing and the end-blockers are evaluated 25x on forks of the same state and write sets and return values compared. Thorough tier only: one twin of every fourth group is a -race build that serves all Paloma gRPC queries and simulations from three goroutines while blocks execute; a race report whose racing access is made by Paloma code is a violation (reports inside cosmos-sdk/iavl are listed, not deciding). Held = no divergence and no such race on those executions.",
         "Harness workload generator deterministic (checked: diverging inputs with equal digests => INCONCLUSIVE); one machine/architecture; tx log strings excluded.",
         "DESIGN.md §2 C08"),
 "C09": ("exploration", "chain+world",
         "recover()/error oracle around FinalizeBlock of the real app under omnibus histories with hostile accepted values + Begin/EndBlock probing of every Paloma module on forked states at rare height classes",
         "Seeded omnibus histories of the real application in which every sender-controlled value (fee multiplicators, gas estimates, amounts, payload sizes, proofs of every malformed shape, nonces, versions, addresses, governance-set numbers and strings) comes from hostile generators and remains only if the chain accepted the transaction. Every FinalizeBlock is wrapped in recover()+error check; every 40 blocks each Paloma module's BeginBlock/EndBlock is additionally run on throw-away forks at the next heights = 0 mod 10/50/300/303 and at 10 000 / 15 150 / 30 300 / 303 000; the version gate (completed upgrade plan x application version on one major.minor line) is probed on forks and may stop older software only. Scripted long-idle histories (early deliveries, a flood of > 1000 job executions nobody relays, one late delivery) take the relay-metrics purge over validators whose whole history is outside the scoring window; scripted retry histories (minority of MEV-capable validators, unanimous failure reports) make the end-blocker re-enqueue logic calls. Held = no abort on those executions.",
         "Only accepted-transaction states; governance-set policy numbers from a plausible range; version-gate halt not exercised; stakes bounded by realistic supply.",
         "DESIGN.md §2 C09"),
 "C10": ("exploration", "chain+world",
         "build-time reference model (membership, shares, ids, immutability by raw-store hashes) + exact big-integer projection oracle over real-app histories with staking churn and 10^5 generated snapshots on forks",
         "Histories of the real app with real staking txs (delegate, undelegate, create validator, unjail), registrations (all chains, one missing, two accounts on a chain), jailing, chains added/activated/removed, attested and just-in-time valset deliveries: every snapshot id found in the raw store is compared with a reference computed from staking and registration state at build time, ids must increase, the current snapshot is the highest id, stored bytes never change except Chains growing; every UpdateValset message, every compass deployment (the valset in the constructor of an UploadSmartContract message, decoded with the message's own ABI; a new compass version is released on a throw-away fork every tenth block, half of the time after activating a chain there) and 10^5-10^6 generated snapshots projected through the real code are compared with floor(2^32*share/total) in big integers and the two-thirds gate. Held = held on those snapshots and messages.",
         "Build blocks carry no txs, so 'at build time' is the state before the block; totals >= 2^63 (a panic before the fix) belong to C09; compass upgrades are released on forks only (the deployments they queue are judged, their attestation is not driven); the CompassHandover message carries no validator set.",
         "DESIGN.md §2 C10"),
 "C11": ("exploration", "chain+world",
         "metamorphic key oracle over reflected single-field mutants of every claim type + differential execution of vote/tally/handler on forked states of the real app",
         "Claim types and fields are discovered by reflection; for every single-field mutant pair the real attestation key must differ when the field is on the property's list, and a three-way differential run on forks of the real app (honest votes X / honest votes X' / byzantine X' first then honest X) through the real msg server, Attest, the skyway end-blocker and the attestation handler must show that pooled votes never produce a different effect. Held = held on the generated pairs.",
         "Single-field differences only (as the property quantifies); collision resistance of the hash assumed; key model cross-checked against the keys the keeper really writes and against a real ABCI block in every case.",
         "DESIGN.md §2 C11"),
 "C12": ("exploration", "chain+world",
         "reference model of the liveness rules (TTL, grace period, network protection, sentence ladder, version gate) against 2300-4500-block ABCI histories of the real app with generated validator address byte patterns",
         "Histories of the real app with real keep-alive, unjail, stake and governance txs; validator keys are drawn until the operator address has a wanted byte class (0x2c at start/middle/end/twice, 0x00, near-0x2c); keep-alive cadences sit around the 2000-block lifetime, unjail blocks hit the last grace block, a whale moves stake to the exact 25% boundary, block time jumps walk the sentence ladder. At every liveness check the model decides must-be-jailed / must-not-be-jailed from the monitor's own log of accepted keep-alives, unjails and stakes; versions are compared with an independent SemVer implementation; the minimum never decreases. Held = held at those checks.",
         "A validator that never sent a keep-alive must be jailed only once older than the lifetime; the 25% test is order-tolerant within one sweep; jailing inside the grace period is not forbidden by the statement.",
         "DESIGN.md §2 C12"),
 "C13": ("exploration", "chain+world",
         "checkpoint-archive monitor with an independent checkpoint encoder and ecrecover + prune-time jailing oracle from the monitor's own evidence record, on real-app histories with replayed genuine confirmations",
         "Histories of the real app with batches in every stage (built, re-estimated, confirmed, timed out, re-built, executed) and cross-chain messages pruned with 0%, <10%, =10%, 10-66% and split evidence; the monitor archives every checkpoint it ever sees on a stored batch and every genuine confirmation, and any user, validator or the signer itself replays them as bad-signature evidence at any later height (handler calls on forks after every block and real txs): nobody may become jailed for a signature over a checkpoint the chain issued, a signature over a fabricated batch must jail its signer only; at every prune a newly jailed validator must not have supplied evidence and nobody is jailed below 10% of snapshot shares. Held = held on those submissions and prune events.",
         "The control (a truly bad signature must jail) makes a dead jail path INCONCLUSIVE, not held; compass re-deployment mid-batch not driven.",
         "DESIGN.md §2 C13"),
 "C14": ("exploration", "chain+world",
         "set-comprehension reference model over snapshot / fee / metrics / trait tables and queue contents read at the same boundary + exact big.Rat fee arithmetic, on real-app histories and what-if forks",
         "Histories of the real app (jobs by accounts and 32-byte contract senders incl. MEV, valset updates, batches, uploads; ties in fees, missing fee/account/metrics records, late pigeons, key rotation, per-chain addresses); after every block every new or re-assigned message and batch must be assigned to a validator that is in the snapshot, has an account on the chain in that snapshot entry (= the signed relayer address), fee and metrics records and the MEV trait when demanded; a failed request leaves nothing queued; for every validator on every chain GetMessagesForRelaying (keeper and gRPC) must return exactly the set the five conditions of the statement define; elected fees must equal ceil(mult*gas), ceil(rate*relayer fee) in exact rationals; the real pick and job execution are also run on forks at five block times. Held = held on those boundaries.",
         "'older message of the same sender still pending' = in the queue without a delivery or error report (matches the statement's wording and the code).",
         "DESIGN.md §2 C14"),
 "C15": ("exploration", "chain+world",
         "math/big reference model of tax, refund, burn and limit windows against the real app (direct-mode histories at window edges, enumerated edge grids, one full ABCI flow with real governance)",
         "Random direct-mode histories (amounts up to 2^256-1, decimal and fractional rates, exemption lists, all periods, heights walking through start+L-2..start+L+1, reconfiguration mid-history, batches executed or timed out), enumerated window-edge and tax grids, and an ABCI flow through real governance, ante and end-blockers; every send, cancel, execution and rejected send is compared with an exact big-integer model written from the statement; a keeper probe on a fork checks that a rejected transfer consumes no allowance. Held = held on those operations.",
         "Fixed windows opened by the first accepted transfer after the previous one elapsed (the statement's reading); intermediate-overflow rejections counted, not judged.",
         "DESIGN.md §2 C15"),
 "C16": ("exploration", "chain+world",
         "map-based reference model + complete bank/tokenfactory state comparison after every block of real-tx histories of the real app",
         "Seeded histories of create / mint / burn / change-admin / set-metadata by admins, creators, holders and outsiders on factory, native, IBC-looking and malformed denoms with amounts 0..2^256-1 and forged creator/signers metadata, every message through the full ante chain; every successful tx is judged against the reference model and after every block ALL balances, supplies, bank metadata and the whole tokenfactory store are compared with it. Held = held on those histories.",
         "No fee grants exist (a fee grant is chain-wide delegation); bridge and wasm-binding operations excluded so that the supply equation is exact.",
         "DESIGN.md §2 C16"),
 "C17": ("exploration", "chain+world",
         "byte-level reference for the enqueued call + raw job-store immutability monitor + turnstone-queue diff around every create/execute request (txs, handlers on cache contexts, real wasm bindings)",
         "Requests reach the scheduler as signed txs in real blocks, as handler calls on inspected cache contexts and through the real wasm message bindings with harness-supplied contract addresses; after every request the raw scheduler store must be byte-identical for existing jobs, duplicates refused, and the target chain's queue must have gained exactly the logic calls of the successful executes (payload = stored-or-supplied body + 32-byte left-padded requester, contract, flags) and nothing after a failed one. Held = held on those requests.",
         "No wasm VM runs (the binding code is called directly); delivery of the enqueued calls is C07.",
         "DESIGN.md §2 C17"),
 "C18": ("exploration", "chain+world",
         "reference ledger with full expected-state prediction after every operation + standing escrow and vesting invariants + raw-store comparison around ineffective sales, on real-tx histories of the real app",
         "Histories of direct licences and attested sales (full oracle path, exact-66% minority blocks, wrong/unconfigured contracts, unfunded funders), activation / re-activation / impostor attempts, governance reconfiguration mid-flight and time travel; after every operation the complete expected state (escrow per denom, licence list, balances, account types and vesting schedules, fee allowances, account count) is predicted from the statement and diffed against the chain; vesting is probed at start+-1, 1/4, 1/2, 3/4, end+-1 against the exact rational amount; a sale that must change nothing is checked by dumping the paloma, bank, feegrant and auth stores. Held = held on those operations.",
         "Fee-grant delegation is chain-wide power of attorney (allowed by C03) and not generated against the escrow; calendar months computed independently.",
         "DESIGN.md §2 C18"),
 "C19": ("exploration", "pure",
         "reference-model monitor over insert/remove/select histories of the real mempool (bounded-exhaustive + seeded random)",
         "Every history of <=5 (quick) / <=6 (thorough) operations over a 2-sender x 2-sequence x 5-class alphabet plus seeded random histories over up to 8 senders is executed against the real DefaultPriorityMempool; after every operation a map-based reference model checks count, exactly-once, per-sender nonce order and the class-priority rule. Held = held on those histories.",
         "Sequential use (ABCI mutex); (sender,seq) unique among pending; select atomic; completeness only inside the enumerated scope.",
         "DESIGN.md §2 C19"),
}
NOT_YET = {
}
ALL = ["C%02d" % i for i in range(1, 20)]

def main():
    checks = []
    for pid in sorted(CHECKS):
        level, engine, tech, text, note, ref = CHECKS[pid]
        checks.append({
            "property_id": pid,
            "quick_cmd": "./check.sh %s quick" % pid,
            "thorough_cmd": "./check.sh %s thorough" % pid,
            "evidence_file": "evidence/%s.json" % pid,
            "replay_cmd_template": "./check.sh %s replay {path}" % pid,
            "engine": engine,
            "level_claimed": {"category": level, "text": text, "design_ref": ref},
            "level_note": note,
            "technique": tech,
        })
    na = []
    for pid in ALL:
        if pid not in CHECKS:
            na.append({"property_id": pid, "reason": NOT_YET.get(pid, "monitor not built yet in this round (runtime monitoring applies; see DESIGN.md §2) - not claimed until its check exists and is validated")})
    hooks_commits = []
    hc = os.path.join(HERE, "hooks_commits.txt")
    if os.path.exists(hc):
        hooks_commits = [l.split()[0] for l in open(hc) if l.strip() and not l.startswith('#')]
    m = {
        "version": 1,
        "setup_cmd": "./setup.sh",
        "hooks": {
            "guard": "verif",
            "enable": "go build -tags verif (done by ./check.sh for every check; harness/go.mod replaces the paloma module by /repo's working tree)",
            "baseline_off_cmd": BASELINE["cmd"],
            "source_commits": hooks_commits,
            "add_only": True,
        },
        "engines": [
            {"name": "chain+world", "path": "harness/chain", "serves_properties": [p for p in sorted(CHECKS) if CHECKS[p][1] == "chain+world"],
             "kind_free_text": "the real app.App driven in-process through ABCI (FinalizeBlock/Commit, full ante chain) or through the MsgServiceRouter on cache contexts, with simulated relayers and remote EVM chains; monitors are reference models / invariants evaluated on state read back through exported keeper APIs"},
            {"name": "pure", "path": "harness/mon", "serves_properties": [p for p in sorted(CHECKS) if CHECKS[p][1] == "pure"],
             "kind_free_text": "direct calls into real package functions (mempool, consensus tally, median, signing bytes, claim hashes) with enumerated and seeded inputs, compared against independent reference computations"},
        ],
        "checks": checks,
        "not_applicable": na,
        "notes": "Technique family: runtime monitoring. Exit codes: 0 held (possibly KNOWN-FINDING lines), 1 VIOLATION, 2 build failure, 3 INCONCLUSIVE (never reported as held). Known findings: known_findings.txt. VERIF_SEED selects the seed (default 1).",
    }
    json.dump(m, open(os.path.join(HERE, "MANIFEST.json"), "w"), indent=1)
    print("wrote MANIFEST.json with", len(checks), "checks,", len(na), "not_applicable")

main()
