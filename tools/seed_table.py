#!/usr/bin/env python3
"""Rewrites the section '### 8.5 Seeded regressions' of DESIGN.md from seeded/*/meta.json."""
import json, glob, re, os
rows=[]
for f in sorted(glob.glob('/verif/seeded/*/meta.json')):
    m=json.load(open(f))
    patch=open(os.path.join(os.path.dirname(f),'patch.diff')).read()
    files=sorted(set(re.findall(r'^\+\+\+ b/(\S+)', patch, re.M)))
    rows.append(f"| {m['seed']} | `{', '.join(files)}` | {m['needs_to_manifest']} | {m['detected_by_checks']} |")
sec = "### 8.5 Seeded regressions (independent sub-agents; `/verif/seeded/<id>/`)\n\n" \
      "Each was written by a fresh sub-agent that saw only the property text and its own scratch worktree, " \
      "compiles, passes the existing suite, and comes with a demonstration that fails with the change and passes without it " \
      "(all re-confirmed by `tools/verify_seed.sh`). The check of the property was then run against the changed tree.\n\n" \
      "| seed | files changed | needs, to manifest | result of the check |\n|---|---|---|---|\n" + "\n".join(rows) + "\n"
p='/verif/DESIGN.md'; s=open(p).read()
if '### 8.5 Seeded regressions' in s:
    s=re.sub(r'### 8\.5 Seeded regressions.*?(?=\n### |\n## |\Z)', sec, s, flags=re.S)
else:
    s=s.rstrip('\n')+"\n\n"+sec
open(p,'w').write(s)
print("seeds:",len(rows))
