#!/usr/bin/env bash
# usage: tools/run_all_seeds.sh [Cnn ...]   (default: all properties)
# Re-confirms every kept seeded regression against the CURRENT checks: for each /verif/seeded/<id>/ a scratch worktree of
# /repo is created under /tmp, the patch applied, the property's quick check run against it (tools/devcheck.sh, isolated
# build), and the worktree removed again. Output: out/seeds-regression.txt (one line per seed: CAUGHT n signatures / MISSED).
# Seeds of one property run one after the other (they share the per-property dev binary), properties run 4 at a time.
cd "$(dirname "$0")/.."
export GOFLAGS=-mod=mod GOPROXY=off GOSUMDB=off GOTOOLCHAIN=local
props="$*"; [ -z "$props" ] && props=$(ls -d seeded/*/ | xargs -n1 basename | sed 's/-.*//' | sort -u)
mkdir -p out/seedreg
one_prop() {
  p="$1"
  for d in seeded/*/; do d=${d%/}
    # a seed caught by ANOTHER property's check names that property in meta.json (check_property); it runs with that property's seeds
    cp=$(python3 -c "import json,sys;print(json.load(open('$d/meta.json')).get('check_property','$(basename $d | sed 's/-.*//')'))")
    [ "$cp" = "$p" ] || continue
    id=$(basename "$d"); low=$(echo "$id" | tr 'A-Z' 'a-z'); wt="/tmp/rs-$low"
    git -C /repo worktree remove --force "$wt" >/dev/null 2>&1
    git -C /repo worktree add --detach "$wt" HEAD >/dev/null 2>&1
    if ! git -C "$wt" apply "$PWD/$d/patch.diff" 2>/dev/null; then echo "$id PATCH-DOES-NOT-APPLY" ; git -C /repo worktree remove --force "$wt"; continue; fi
    VERIF_REPO="$wt" tools/devcheck.sh "$cp" quick > "out/seedreg/$id.log" 2>&1; rc=$?
    n=$(grep -c "^VIOLATION" "out/seedreg/$id.log")
    sigs=$(grep "signature=" "out/seedreg/$id.log" | sed 's/.*signature=//' | awk '{print $1}' | sort -u | head -3 | tr '\n' ' ')
    if [ "$rc" = "1" ] && [ "$n" -gt 0 ]; then echo "$id CAUGHT violations=$n e.g. $sigs"; else echo "$id MISSED exit=$rc"; fi
    git -C /repo worktree remove --force "$wt" >/dev/null 2>&1
  done
}
export -f one_prop
printf '%s\n' $props | xargs -P 4 -I{} bash -c 'one_prop {}' | tee out/seeds-regression.txt
echo "caught: $(grep -c CAUGHT out/seeds-regression.txt)  missed: $(grep -c MISSED out/seeds-regression.txt)  other: $(grep -vc 'CAUGHT\|MISSED' out/seeds-regression.txt)"
