#!/usr/bin/env bash
# usage: tools/mkseed.sh C01 a   -> creates worktree /tmp/seed-c01-a and prints the prompt to /tmp/seed-prompt-C01-a.txt
id="$1"; tag="$2"; low=$(echo "$id" | tr 'A-Z' 'a-z'); wt="/tmp/seed-$low-$tag"
git -C /repo worktree add --detach "$wt" HEAD >/dev/null 2>&1 || true
python3 - "$id" "$wt" <<'PY' > "/tmp/seed-prompt-$id-$tag.txt"
import sys, json
pid, wt = sys.argv[1], sys.argv[2]
for l in open('/verif/properties.jsonl'):
    p = json.loads(l)
    if p['id'] == pid: break
t = open('/verif/tools/seed_prompt.txt').read()
t = t.replace('__WT__', wt).replace('__ID__', pid).replace('__TITLE__', p['title']).replace('__STATEMENT__', p['statement'])
t = t.replace('__QUANT__', p['quantifier']['text']).replace('__FILES__', ', '.join(p['anchors']['files']))
print(t)
PY
echo "$wt /tmp/seed-prompt-$id-$tag.txt"
